#!/bin/bash
# re-runs every seeded change against the checks its meta.json lists as catching it; prints one line per change
cd "$(dirname "$0")/.."
for d in seeded/*/; do
  id=$(basename $d)
  checks=$(python3 -c "import json; print(' '.join(json.load(open('$d/meta.json'))['caught_by']))")
  [ -z "$checks" ] && { echo "$id: (deliberately not judged)"; continue; }
  out=$(python3 tools/seedtest.py $d/patch.diff $checks --skip-suite 2>&1 | tail -1)
  want=$(echo $checks | tr ' ' '\n' | sort | tr '\n' ' ')
  got=$(echo "$out" | sed 's/CAUGHT BY: //' | tr ' ' '\n' | sort | tr '\n' ' ')
  [ "$want" == "$got" ] && echo "$id: OK caught by $checks" || echo "$id: MISMATCH listed [$checks] now [$out]"
done
