#!/bin/bash
# collect_seed.sh <id> : verify a sub-agent's seeded change in /tmp/wt/<id> (demo fails with it, passes without) and store it under /verif/seeded/<id>
id=$1; base=${2:-/tmp/wt}; sfx=${3:-}; wt=$base/$id; out=/verif/seeded/$id$sfx
cd $wt || exit 2
git diff -- src > /tmp/collect-$id.diff
if [ ! -s /tmp/collect-$id.diff ]; then echo "$id: no source change in worktree"; exit 2; fi
if ! diff -q /tmp/collect-$id.diff demo/patch.diff >/dev/null; then echo "$id: NOTE demo/patch.diff differs from the working tree diff; using the working tree diff"; fi
echo "--- $id changed files:"; git diff --stat -- src | tail -5
( bash demo/run.sh > /tmp/collect-$id.with.log 2>&1 ); with=$?
git apply -R /tmp/collect-$id.diff || { echo "cannot revert"; exit 2; }
( bash demo/run.sh > /tmp/collect-$id.without.log 2>&1 ); without=$?
git apply /tmp/collect-$id.diff
echo "$id demo: with change exit=$with ; without change exit=$without"
mkdir -p $out
cp /tmp/collect-$id.diff $out/patch.diff
cp demo/demo.c demo/run.sh demo/README.md $out/ 2>/dev/null
tail -5 /tmp/collect-$id.with.log | sed 's/^/   with: /'
echo "$with $without" > $out/.demo_result
