#!/bin/bash
# runs every check's quick (or given) tier, prints one line per check
tier=${1:-quick}
cd "$(dirname "$0")/.."
for i in $(seq -w 1 20); do
  p=C$i
  s=$(date +%s.%N)
  out=$(./vf check $p --tier $tier 2>&1); rc=$?
  e=$(date +%s.%N)
  printf "%s rc=%d %.1fs  %s\n" $p $rc $(echo "$e - $s" | bc) "$(echo "$out" | grep -c VIOLATION) violation lines"
done
