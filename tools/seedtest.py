#!/usr/bin/env python3
"""Apply a seeded change to a scratch worktree of /repo, confirm it compiles and passes the pinned suite,
then run the given checks (default: all 20, quick tier) against it.  Usage: seedtest.py <patch.diff> [C01 C05 ...] [--tier thorough] [--skip-suite]"""
import os, subprocess, sys, shutil, json, time, re
args = sys.argv[1:]
tier = "quick"
skip_suite = False
if "--tier" in args:
    i = args.index("--tier"); tier = args[i + 1]; del args[i:i + 2]
if "--skip-suite" in args:
    args.remove("--skip-suite"); skip_suite = True
patch = os.path.abspath(args[0])
HERE = os.path.dirname(os.path.dirname(os.path.abspath(__file__)))
VF = os.environ.get("VF_DRIVER", os.path.join(HERE, "vf"))
props = args[1:] or ["C%02d" % i for i in range(1, 21)]
wt = "/tmp/seedtest-%d" % os.getpid()
def sh(cmd, **kw):
    return subprocess.run(cmd, shell=True, stdout=subprocess.PIPE, stderr=subprocess.STDOUT, text=True, **kw)
sh(f"git -C /repo worktree add -q --detach {wt} HEAD")
try:
    r = sh(f"git -C {wt} apply {patch}")
    if r.returncode:
        print("patch does not apply:", r.stdout); sys.exit(2)
    if not skip_suite:
        r = sh(f"cmake -S {wt} -B {wt}/_b -G Ninja -DWITH_TESTS=ON -DCMAKE_BUILD_TYPE=RelWithDebInfo -DCMAKE_C_FLAGS=-Wno-error >/dev/null && cmake --build {wt}/_b -j16 2>&1 | tail -3 && ctest --test-dir {wt}/_b -j8 2>&1 | tail -4")
        ok = "100% tests passed" in r.stdout
        print("pinned suite on the changed tree:", "PASS (26/26 executables)" if ok else "FAIL\n" + r.stdout[-1500:])
        shutil.rmtree(f"{wt}/_b", ignore_errors=True)
        if not ok:
            sys.exit(3)
    res = {}
    for p in props:
        t0 = time.time()
        env = dict(os.environ, VF_REPO=wt)
        r = subprocess.run([VF, "check", p, "--tier", tier, "--evidence-off"], stdout=subprocess.PIPE, stderr=subprocess.STDOUT, text=True, env=env, cwd=HERE)
        viol = [l for l in r.stdout.splitlines() if l.startswith("VIOLATION")]
        msgs = [l for l in r.stdout.splitlines() if re.match(r"^\[C\d+\] /verif/replay", l)]
        res[p] = (r.returncode, len(viol))
        print("%s rc=%d violations_reported=%d %.0fs %s" % (p, r.returncode, len(viol), time.time() - t0, (msgs[0][:260] if msgs else (r.stdout.strip().splitlines()[-1][:200] if r.returncode else ""))))
    caught = [p for p, (rc, n) in res.items() if rc == 1]
    print("CAUGHT BY:", " ".join(caught) if caught else "(none)")
finally:
    sh(f"git -C /repo worktree remove --force {wt}")
