#!/bin/bash
# like seedmatrix.sh, but runs only the FIRST check listed in each change's meta.json (a quicker regression pass over all seeded changes);
# newest rounds first. Prints one line per change.
cd "$(dirname "$0")/.."
for sfx in h g f e d c b ""; do
  for i in $(seq -w 1 20); do
    id=C$i$sfx; d=seeded/$id
    [ -f $d/meta.json ] || continue
    chk=$(python3 -c "import json; c=json.load(open('$d/meta.json'))['caught_by']; print(c[0] if c else '')")
    [ -z "$chk" ] && { echo "$id: (deliberately not judged)"; continue; }
    out=$(python3 tools/seedtest.py $d/patch.diff $chk --skip-suite 2>&1 | tail -1)
    case "$out" in *"CAUGHT BY: $chk"*) echo "$id: OK caught by $chk";; *) echo "$id: MISMATCH expected $chk, now [$out]";; esac
  done
done
