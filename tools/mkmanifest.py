#!/usr/bin/env python3
"""Regenerates /verif/MANIFEST.json from the table below and validates it against the schema."""
import json, os, sys
HERE = os.path.dirname(os.path.dirname(os.path.abspath(__file__)))
sys.path.insert(0, os.path.join(HERE, "tools"))
from manifest_table import CHECKS, PENDING

ALL = ["C%02d" % i for i in range(1, 21)]
GIANT = {"C01", "C02", "C03", "C07", "C08", "C09", "C11", "C16"}
MSAN_NOTE = (" A third binary - the same harness built with -fsanitize=memory - runs a smaller input space (no B(n), shallower DFS) beside them and is merged in as well.")
GIANT_NOTE = (" In addition the giant cases of harness/chk_giant.c (definite byte / text strings of 2^32-1, 2^32 and 2^32+24 bytes with real payloads, "
              "gcc -O2, functional oracle) run beside the main binary and are merged into the same evidence file; they need 24 GiB of available memory and are "
              "reported as not run (exhaustive: false) otherwise.")
checks = []
for pid in ALL:
    if pid not in CHECKS:
        continue
    c = CHECKS[pid]
    checks.append({
        "property_id": pid,
        "quick_cmd": f"./vf check {pid} --tier quick",
        "thorough_cmd": f"./vf check {pid} --tier thorough",
        "evidence_file": f"/verif/evidence/{pid}.json",
        "replay_cmd_template": "./vf replay {path}",
        "engine": c["engine"],
        "level_claimed": {"category": c["category"], "text": c["text"], "design_ref": c["design_ref"]},
        "level_note": c["note"] + (GIANT_NOTE if pid in GIANT else "") + (MSAN_NOTE if pid == "C02" else ""),
        "technique": c["technique"],
    })
na = [{"property_id": p, "reason": PENDING.get(p, "check not implemented yet in this round; planned explorer described in DESIGN.md section 5")} for p in ALL if p not in CHECKS]
m = {
    "version": 1,
    "setup_cmd": "./vf setup",
    "hooks": {
        "guard": "LIBCBOR_VERIF",
        "enable": "none needed: instrumentation comes from compiler flags (sanitizers, -fsanitize=thread instrumentation with our own runtime), the public cbor_set_allocs seam, link-time symbol redirection and cmake cache options; no source hooks exist in /repo",
        "baseline_off_cmd": "./vf baseline",
        "source_commits": [],
        "add_only": True,
    },
    "engines": [
        {"name": "E1-input-space", "path": "harness/chk_load.c", "serves_properties": [p for p in ALL if CHECKS.get(p, {}).get("engine") == "E1-input-space"],
         "kind_free_text": "exhaustive enumeration of byte strings and pushdown DFS over a head alphabet, real library in lock-step with a reference decoder"},
        {"name": "E1-tree-space", "path": "harness/chk_serial.c, harness/vf_trees.c", "serves_properties": [p for p in ALL if CHECKS.get(p, {}).get("engine") == "E1-tree-space"],
         "kind_free_text": "bounded exhaustive enumeration of item trees (decoder-derived + constructed grammar) with reference encoder, byte-image snapshots, guard-page buffers"},
        {"name": "E2-api-history", "path": "harness/chk_history.c, harness/chk_container.c", "serves_properties": [p for p in ALL if CHECKS.get(p, {}).get("engine") == "E2-api-history"],
         "kind_free_text": "explicit-state BFS over API call histories with canonical-state deduplication; real calls as transition function; shadow model as oracle"},
        {"name": "E3-fault-schedule", "path": "harness/chk_fault.c", "serves_properties": [p for p in ALL if CHECKS.get(p, {}).get("engine") == "E3-fault-schedule"],
         "kind_free_text": "deviation-bounded enumeration of allocator answers (single refusal, fail-stop, pairs) per scenario"},
        {"name": "E4-fragment-state", "path": "harness/chk_frag.c", "serves_properties": [p for p in ALL if CHECKS.get(p, {}).get("engine") == "E4-fragment-state"],
         "kind_free_text": "explicit-state search of the streaming client's state graph with the real decoder as transition function"},
        {"name": "E5-thread-schedule", "path": "harness/vf_sched.c, harness/chk_threads.c", "serves_properties": [p for p in ALL if CHECKS.get(p, {}).get("engine") == "E5-thread-schedule"],
         "kind_free_text": "deterministic coroutine scheduler over compiler-instrumented memory accesses of the real library; iterative preemption-bounded DFS; race / frozen-store / digest oracles"},
        {"name": "E1-value-domain", "path": "harness/chk_stream.c, harness/chk_encode.c", "serves_properties": [p for p in ALL if CHECKS.get(p, {}).get("engine") == "E1-value-domain"],
         "kind_free_text": "complete enumeration of finite value domains (initial bytes, arguments, buffer lengths, float patterns) against reference tokeniser/encoder"},
    ],
    "checks": checks,
    "not_applicable": na,
    "notes": "All checks rebuild libcbor from /repo's working tree on every invocation (cmake configure for the generated headers, then every library TU with the variant's flags). No randomness: VERIF_SEED is recorded only. Genuine defects found by the checks and repaired in /repo are listed as 'fixed:' lines in known_findings.txt.",
}
json.dump(m, open(os.path.join(HERE, "MANIFEST.json"), "w"), indent=1)
try:
    import jsonschema
    jsonschema.validate(m, json.load(open("/root/.vp/MANIFEST.schema.json")))
    print("MANIFEST.json valid:", len(checks), "checks,", len(na), "not_applicable")
except ImportError:
    print("jsonschema not available; wrote MANIFEST.json unvalidated")
