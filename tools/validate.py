#!/usr/bin/env python3
import json, glob, sys, jsonschema
s = json.load(open("/root/.vp/EVIDENCE.schema.json"))
ok = True
for f in sorted(glob.glob("/verif/evidence/*.json") + glob.glob("/verif/evidence/thorough/*.json")):
    try:
        e = json.load(open(f)); jsonschema.validate(e, s)
        c = e["coverage"]
        print("%s ok  level=%s tier=%s eval=%s distinct=%s states=%s trans=%s exh=%s viol=%s wall=%ss" % (f.split('/')[-1], e["level"], e["tier"], c.get("evaluations"), c.get("distinct_nontrivial"), c.get("states"), c.get("transitions"), c.get("exhaustive"), e.get("violations"), e["wall_s"]))
    except Exception as ex:
        ok = False; print(f, "INVALID", str(ex)[:300])
jsonschema.validate(json.load(open("/verif/MANIFEST.json")), json.load(open("/root/.vp/MANIFEST.schema.json")))
print("manifest ok")
sys.exit(0 if ok else 1)
