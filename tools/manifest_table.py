E1_NOTE = ("Trusted: the reference decoder/encoder in harness/vf_ref.c (pinned to RFC 8949 Appendix A, RFC 3629 and compiler IEEE-754 conversions by ./vf setup), "
           "the instrumenting allocator, clang's ASan/UBSan instrumentation, glibc. Guarantee holds within the stated enumeration bounds only.")
CHECKS = {
 "C01": dict(engine="E1-input-space", category="model_checking", design_ref="DESIGN.md 5/C01",
   technique="bounded exhaustive input enumeration (all strings <= n bytes + pushdown DFS over a head alphabet) executed on the real code under ASan/UBSan with live CBOR_ASSERT",
   text="Every byte string of length <= 3 (4 thorough) and every head sequence of the bounded pushdown DFS (with in-head truncations and single-edit neighbours) is decoded by the real library in an exactly-sized heap block, then described, sized, serialized, copied and released, and stream-decoded in a consume loop; any sanitizer report, assertion, signal, hang, leak or third outcome on any of them is a violation. Exhaustive within the bound, which contains every head kind at every width in every nesting position up to depth 5/6.",
   note=E1_NOTE),
 "C02": dict(engine="E1-input-space", category="model_checking", design_ref="DESIGN.md 5/C02",
   technique="bounded exhaustive input enumeration with an independent reference decoder run in lock-step on every input (accept iff accept, tree equality, exact read)",
   text="For every enumerated input the reference decoder (written from RFC 8949 App. C) and cbor_load must agree on acceptance; accepted trees are compared node for node (types, widths, values, tags, flavour, chunking, order, definite containers full, refcount 1), read must equal the encoded length, and the input block is overwritten and freed before the tree is walked and serialized (aliasing becomes a use-after-free).",
   note=E1_NOTE),
 "C05": dict(engine="E1-input-space", category="model_checking", design_ref="DESIGN.md 5/C05",
   technique="bounded exhaustive input enumeration; reference decoder yields the set of admissible (code, position) verdicts for every rejected input",
   text="On every enumerated input that is rejected: NULL is returned, nothing stays allocated, every result field is written (result pre-filled with 0xAB), (code, position) is in the reference's admissible set (singleton except for the eager/lazy case the property itself admits), read equals position; every proper prefix of every accepted sequence is additionally checked to be classified NOTENOUGHDATA at the first incomplete head.",
   note=E1_NOTE),
}
VAL_NOTE = ("Trusted: reference tokeniser / head encoder / IEEE-754 and UTF-8 routines in harness/vf_ref.c (pinned by ./vf setup), the recording callback table, "
            "the guard-page buffer (mmap + PROT_NONE), sanitizer instrumentation. 64-bit value domains are covered by stated structured sets, not exhaustively.")
CHECKS.update({
 "C08": dict(engine="E1-value-domain", category="exploration", design_ref="DESIGN.md 5/C08",
   technique="complete enumeration of (initial byte, argument, buffer length) triples against a reference tokeniser, recording callbacks, counting allocator, guard page",
   text="All 256 initial bytes x all 1- and 2-byte arguments x structured 4/8-byte arguments (2^k, 2^k+-1, width boundaries, top-of-range incl. lengths within 16 of 2^64) x every buffer length 0..head+1 and payload end -1/0/+1: exactly one of FINISHED (one callback, the right slot, exact arguments, payload pointer inside the buffer, read = head+payload) / NEDATA (no callback, read 0, n < required <= pending length as a mathematical integer) / ERROR; 0 allocator requests; same answer when the call is repeated after other calls and when the buffer is cut to exactly `read` bytes.",
   note=VAL_NOTE),
 "C10": dict(engine="E1-value-domain", category="exploration", design_ref="DESIGN.md 5/C10",
   technique="exhaustive enumeration of encoder value domains (8/16-bit, thorough: 32-bit) and structured 64-bit sets, each round-tripped through the real streaming decoder",
   text="Every cbor_encode_* function on every value of its 8/16-bit domain (32-bit in the thorough tier) and on structured 64-bit sets must write exactly the RFC 8949 head (named width / 8-bit immediate rule / shortest form) into an exactly-sized guard-page buffer, and decoding those bytes must fire the matching callback once with the identical value and consume exactly the bytes written (unassigned simple values: encoded per RFC, decoder reports ERROR).",
   note=VAL_NOTE),
 "C15": dict(engine="E1-value-domain", category="exploration", design_ref="DESIGN.md 5/C15",
   technique="exhaustive enumeration of all 2^16 half patterns (and all 2^32 single patterns in the thorough tier) and sign/exponent-class x boundary-mantissa doubles, compared with integer-arithmetic IEEE-754 conversion",
   text="Every half pattern, every single pattern (thorough; class x boundary mantissas in quick) and 4096 classes x boundary mantissas of doubles is decoded (stream callback and cbor_load item), compared bit-for-bit with an independent IEEE-754 conversion, re-encoded (cbor_encode_* and cbor_serialize) and required to reproduce the bytes (NaN -> canonical quiet NaN); every single pattern is also fed to cbor_encode_half under UBSan/ASan (totality: 3 bytes, no UB, exact half when one exists).",
   note=VAL_NOTE),
})
TREE_NOTE = ("Trusted: reference encoder/decoder in harness/vf_ref.c (pinned by ./vf setup), the walker (public getters only), the instrumenting allocator, "
             "ASan/UBSan, guard-page buffers. Tree space = decoder-derived trees of the bounded input space + the constructed-tree grammar of harness/vf_trees.c (depth <= 2).")
CHECKS.update({
 "C03": dict(engine="E1-tree-space", category="exploration", design_ref="DESIGN.md 5/C03",
   technique="bounded exhaustive enumeration of item trees (all decoder outputs on B(3) + pushdown DFS, plus an odometer-enumerated grammar of construction-API programs) against a reference encoder",
   text="For every tree of the enumerated space cbor_serialize must equal, byte for byte, the reference encoder applied to the tree as read through the public getters (stored widths, shortest heads, break placement, canonical NaN); loading those bytes must consume all of them and yield an equal tree; serializing that again must give identical bytes. The constructed grammar contributes what the decoder cannot produce: partially filled definite containers, shared sub-items, non-canonical NaNs, all int widths at boundary values, string lengths on every head-width boundary up to 65536.",
   note=TREE_NOTE),
 "C07": dict(engine="E1-tree-space", category="exploration", design_ref="DESIGN.md 5/C07",
   technique="complete enumeration of (tree, buffer size n) for n = 0..size+2 and (encoder, value, n) for n = 0..10 with guard-page-terminated, sentinel-filled buffers",
   text="Every tree of the C03 space is serialized into a buffer of exactly n bytes (ending at a PROT_NONE page, sentinel in front) for every n from 0 to size+2: result = size iff n >= size else 0, no write outside; cbor_serialize_alloc must return a block of exactly `size` bytes from the installed allocator with the same bytes. Every cbor_encode_* x value x n in 0..10 must return the written length or 0 with the buffer byte-identical.",
   note=TREE_NOTE),
 "C11": dict(engine="E1-tree-space", category="exploration", design_ref="DESIGN.md 5/C11",
   technique="bounded exhaustive enumeration of item trees; byte-image snapshot of every live block before/after cbor_copy, address-set disjointness, release of either tree under ASan",
   text="Every tree of the C03 space (incl. shared sub-items, partially filled containers, zero-chunk strings, max-width ints) is copied: the copy must walk equal to the source with refcount 1 on every node and no block reachable twice, serialize to the same bytes, share no block address with the source; the byte image (contents and refcounts) of every source block must be unchanged by the copy, by mutating and releasing the copy, and a fresh copy must survive release of the source (use-after-free is fatal under ASan).",
   note=TREE_NOTE),
 "C14": dict(engine="E1-tree-space", category="exploration", design_ref="DESIGN.md 5/C14",
   technique="complete enumeration of (item, suffix) pairs and of all concatenations of <= 6 items over an 8-item alphabet",
   text="For every accepted x of the bounded input space (consumed entirely when alone, in an exactly-sized guard-page buffer) and every y of a 340-string suffix set (empty, all single bytes, all heads of Sigma, nested items, garbage), load(x||y) must give an equal tree and the same read; every concatenation of 2..6 items over 8 items must be split by the advance-by-read loop into exactly those items, ending exactly at the end.",
   note=TREE_NOTE),
 "C06": dict(engine="E3-fault-schedule", category="fault_enumeration", design_ref="DESIGN.md 5/C06",
   technique="exhaustive enumeration of allocator answer schedules (every single refusal, every fail-stop suffix, thorough: every pair) for every scenario of a bounded exhaustive scenario space",
   text="Scenarios: cbor_load of every accepted DFS sequence, cbor_copy and cbor_serialize_alloc of every tree (decoder-derived + constructed grammar), all 37 builders, push/set/map-add/add-chunk/build_tag at container sizes 0..17. For each, the N requests of the fault-free run are counted and every schedule is run: failure must be reported through the documented channel (NULL / false / 0 with NULL,0 / MEMERROR positioned just past the head that made the refused request), no crash (ASan/UBSan), live-block set back to before, and the byte image of every pre-existing block (contents and refcounts) identical.",
   note="Trusted: instrumenting allocator (fault schedules through the public cbor_set_allocs seam), ASan/UBSan, the position oracle derived from fault-free loads of head prefixes. Fault schedules with three or more independent refusals are not enumerated."),
 "C09": dict(engine="E4-fragment-state", category="model_checking", design_ref="DESIGN.md 5/C09",
   technique="explicit-state search of the streaming client's state graph (consumed, buffered, outstanding required) per enumerated stream, real decoder invoked at every reachable state; brute-force conformance pass over all 2^(n-1) fragmentations of short streams",
   text="For every stream of <= 3 (4) decodable heads over 60 heads (also with a reserved byte appended, and truncated inside the last head) and 24 long-payload streams, the state graph of a buffering client is searched to fixpoint with fragment arrivals of every size; at every reachable (consumed, buffered) the real decoder (buffer flush against a guard page) must return FINISHED with the reference event and read, or NEDATA with buffered < required <= pending length, so every fragmentation delivers the reference event sequence and a stream ending on an item boundary is consumed completely. The memoisation is cross-checked by running the real client loop over all fragmentations of every short stream.",
   note="Trusted: reference tokeniser, recording callbacks, client model (calls the decoder whenever >= required bytes are buffered). Streams are bounded in head count; payload sizes up to 300 bytes."),
 "C16": dict(engine="E1-value-domain", category="model_checking", design_ref="DESIGN.md 5/C16",
   technique="explicit-state product-automaton search (library UTF-8 DFA stepped through the real _cbor_unicode_decode x RFC 3629 validator) to fixpoint + exhaustive enumeration of all byte sequences of length <= 3 (4)",
   text="The product of the library's DFA and an RFC 3629 range validator is explored from the initial pair with all 256 byte transitions from every reachable pair until no new pair appears: in every transition reject <=> reject and scalar boundary <=> scalar boundary, which decides agreement for inputs of every length given the fold loop; the loop itself and the three API paths (set_handle, build_stringn, cbor_load) are checked on every byte sequence of length <= 3 (4 thorough), on boundary-scalar sequences with injected fault bytes, and on a 3000-byte string: count = scalar count or 0, length and content preserved, load never rejects on content.",
   note=VAL_NOTE),
})
PENDING = {}
