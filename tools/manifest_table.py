E1_NOTE = ("Trusted: the reference decoder/encoder in harness/vf_ref.c (pinned to RFC 8949 Appendix A, RFC 3629 and compiler IEEE-754 conversions by ./vf setup), "
           "the instrumenting allocator, clang's ASan/UBSan instrumentation, glibc. Guarantee holds within the stated enumeration bounds only.")
CHECKS = {
 "C01": dict(engine="E1-input-space", category="model_checking", design_ref="DESIGN.md 5/C01",
   technique="bounded exhaustive input enumeration (all strings <= n bytes + pushdown DFS over a head alphabet) executed on the real code under ASan/UBSan with live CBOR_ASSERT",
   text="Every byte string of length <= 3 (4 thorough) and every head sequence of the bounded pushdown DFS (with in-head truncations and single-edit neighbours) is decoded by the real library in an exactly-sized heap block, then described, sized, serialized, copied and released, and stream-decoded in a consume loop; any sanitizer report, assertion, signal, hang, leak or third outcome on any of them is a violation. Exhaustive within the bound, which contains every head kind at every width in every nesting position up to depth 5/6.",
   note=E1_NOTE),
 "C02": dict(engine="E1-input-space", category="model_checking", design_ref="DESIGN.md 5/C02",
   technique="bounded exhaustive input enumeration with an independent reference decoder run in lock-step on every input (accept iff accept, tree equality, exact read)",
   text="For every enumerated input the reference decoder (written from RFC 8949 App. C) and cbor_load must agree on acceptance; accepted trees are compared node for node (types, widths, values, tags, flavour, chunking, order, definite containers full, refcount 1), read must equal the encoded length, and the input block is overwritten and freed before the tree is walked and serialized (aliasing becomes a use-after-free).",
   note=E1_NOTE),
 "C05": dict(engine="E1-input-space", category="model_checking", design_ref="DESIGN.md 5/C05",
   technique="bounded exhaustive input enumeration; reference decoder yields the set of admissible (code, position) verdicts for every rejected input",
   text="On every enumerated input that is rejected: NULL is returned, nothing stays allocated, every result field is written (result pre-filled with 0xAB), (code, position) is in the reference's admissible set (singleton except for the eager/lazy case the property itself admits), read equals position; every proper prefix of every accepted sequence is additionally checked to be classified NOTENOUGHDATA at the first incomplete head.",
   note=E1_NOTE),
}
PENDING = {}
