E1_NOTE = ("Trusted: the reference decoder/encoder in harness/vf_ref.c (pinned to RFC 8949 Appendix A, RFC 3629 and compiler IEEE-754 conversions by ./vf setup), "
           "the instrumenting allocator, clang's ASan/UBSan instrumentation, glibc. Guarantee holds within the stated enumeration bounds only.")
CHECKS = {
 "C01": dict(engine="E1-input-space", category="model_checking", design_ref="DESIGN.md 5/C01",
   technique="bounded exhaustive input enumeration (all strings <= n bytes + pushdown DFS over a head alphabet) executed on the real code under ASan/UBSan with live CBOR_ASSERT",
   text="Every byte string of length <= 3 (4 thorough) and every head sequence of the bounded pushdown DFS (with in-head truncations and single-edit neighbours) is decoded by the real library in an exactly-sized heap block, then described, sized, serialized, copied and released, and stream-decoded in a consume loop; any sanitizer report, assertion, signal, hang, leak or third outcome on any of them is a violation. Exhaustive within the bound, which contains every head kind at every width in every nesting position up to depth 5/6.",
   note=E1_NOTE),
 "C02": dict(engine="E1-input-space", category="model_checking", design_ref="DESIGN.md 5/C02",
   technique="bounded exhaustive input enumeration with an independent reference decoder run in lock-step on every input (accept iff accept, tree equality, exact read)",
   text="For every enumerated input the reference decoder (written from RFC 8949 App. C) and cbor_load must agree on acceptance; accepted trees are compared node for node (types, widths, values, tags, flavour, chunking, order, definite containers full, refcount 1), read must equal the encoded length, and the input block is overwritten and freed before the tree is walked and serialized (aliasing becomes a use-after-free).",
   note=E1_NOTE),
 "C05": dict(engine="E1-input-space", category="model_checking", design_ref="DESIGN.md 5/C05",
   technique="bounded exhaustive input enumeration; reference decoder yields the set of admissible (code, position) verdicts for every rejected input",
   text="On every enumerated input that is rejected: NULL is returned, nothing stays allocated, every result field is written (result pre-filled with 0xAB), (code, position) is in the reference's admissible set (singleton except for the eager/lazy case the property itself admits), read equals position; every proper prefix of every accepted sequence is additionally checked to be classified NOTENOUGHDATA at the first incomplete head.",
   note=E1_NOTE),
}
VAL_NOTE = ("Trusted: reference tokeniser / head encoder / IEEE-754 and UTF-8 routines in harness/vf_ref.c (pinned by ./vf setup), the recording callback table, "
            "the guard-page buffer (mmap + PROT_NONE), sanitizer instrumentation. 64-bit value domains are covered by stated structured sets, not exhaustively.")
CHECKS.update({
 "C08": dict(engine="E1-value-domain", category="exploration", design_ref="DESIGN.md 5/C08",
   technique="complete enumeration of (initial byte, argument, buffer length) triples against a reference tokeniser, recording callbacks, counting allocator, guard page",
   text="All 256 initial bytes x all 1- and 2-byte arguments x structured 4/8-byte arguments (2^k, 2^k+-1, width boundaries, top-of-range incl. lengths within 16 of 2^64) x every buffer length 0..head+1 and payload end -1/0/+1: exactly one of FINISHED (one callback, the right slot, exact arguments, payload pointer inside the buffer, read = head+payload) / NEDATA (no callback, read 0, n < required <= pending length as a mathematical integer) / ERROR; 0 allocator requests; same answer when the call is repeated after other calls and when the buffer is cut to exactly `read` bytes.",
   note=VAL_NOTE),
 "C10": dict(engine="E1-value-domain", category="exploration", design_ref="DESIGN.md 5/C10",
   technique="exhaustive enumeration of encoder value domains (8/16-bit, thorough: 32-bit) and structured 64-bit sets, each round-tripped through the real streaming decoder",
   text="Every cbor_encode_* function on every value of its 8/16-bit domain (32-bit in the thorough tier) and on structured 64-bit sets must write exactly the RFC 8949 head (named width / 8-bit immediate rule / shortest form) into an exactly-sized guard-page buffer, and decoding those bytes must fire the matching callback once with the identical value and consume exactly the bytes written (unassigned simple values: encoded per RFC, decoder reports ERROR).",
   note=VAL_NOTE),
 "C15": dict(engine="E1-value-domain", category="exploration", design_ref="DESIGN.md 5/C15",
   technique="exhaustive enumeration of all 2^16 half patterns (and all 2^32 single patterns in the thorough tier) and sign/exponent-class x boundary-mantissa doubles, compared with integer-arithmetic IEEE-754 conversion",
   text="Every half pattern, every single pattern (thorough; class x boundary mantissas in quick) and 4096 classes x boundary mantissas of doubles is decoded (stream callback and cbor_load item), compared bit-for-bit with an independent IEEE-754 conversion, re-encoded (cbor_encode_* and cbor_serialize) and required to reproduce the bytes (NaN -> canonical quiet NaN); every single pattern is also fed to cbor_encode_half under UBSan/ASan (totality: 3 bytes, no UB, exact half when one exists).",
   note=VAL_NOTE),
})
PENDING = {}
