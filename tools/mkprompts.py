#!/usr/bin/env python3
"""Writes the task files given to the independent sub-agents that seed property-breaking changes (DESIGN.md section 8).
Each agent gets: the text of ONE property, a scratch worktree of /repo, a one-line description of the changes earlier rounds
already made for that property (so that it looks elsewhere), and a required shape.  Nothing about the checks in /verif.
Usage: mkprompts.py <round-dir> <suffixes-of-earlier-rounds, e.g. ",b,c,d"> <shape-rotation-offset>"""
import json, os, subprocess, sys
rd, sfx, off = sys.argv[1], sys.argv[2].split(","), int(sys.argv[3])
props = {json.loads(l)['id']: json.loads(l) for l in open('/verif/properties.jsonl')}
styles = json.load(open(os.path.join(os.path.dirname(__file__), "prompt_shapes.json")))[os.path.basename(rd.rstrip('/'))]
os.makedirs(rd + "/prompts", exist_ok=True)
for n, (pid, p) in enumerate(props.items()):
    d = f"{rd}/{pid}"
    if not os.path.isdir(d):
        subprocess.check_call(["git", "-C", "/repo", "worktree", "add", "-q", "--detach", d, "HEAD"])
    used = [json.load(open(f'/verif/seeded/{pid}{s}/meta.json'))['change'] for s in sfx if os.path.exists(f'/verif/seeded/{pid}{s}/meta.json')]
    ulist = "; ".join("(%s) %s" % (chr(97 + i), u) for i, u in enumerate(used))
    t = f"""You are working in a scratch git worktree of the C library libcbor (RFC 8949 CBOR: encoding, streaming callback decoding, refcounted item tree, pluggable allocators) at {d}. Work ONLY inside {d}: do not touch /repo, do not read or use anything under /verif, there is no network.

TASK: produce a realistic, subtle source change to the library (files under {d}/src/) that BREAKS the semantic property below, while the library still compiles and the project's existing test-suite still passes entirely.

PROPERTY {pid}: {p['title']}
Statement: {p['statement']}
Intended scope (quantifier): {p['quantifier']['text']}

REQUIREMENTS
1. Shape of the change for this task: {styles[(n + off) % len(styles)]}. It must NOT be something ordinary use or the existing tests expose at once; make the trigger as far from the obvious as you can.
2. Keep it small and plausible: the kind of slip a maintainer could make during a refactor, a clean-up or an "optimisation". No dead code whose only purpose is to misbehave on a magic value. The violation must be a real violation of the property AS STATED (read the statement carefully; do not rely on a stricter reading than its words; note for instance that for NaNs only NaN-ness, not payload or sign, is promised). It must manifest in the project's default build configuration on x86-64 Linux.
3. Earlier changes for this property already used these ideas, so use a DIFFERENT mechanism in a different part of the code: {ulist}. Also avoid: static caches / memo tables / static scratch buffers of any kind; arithmetic re-implementations of the float loaders; dropping or moving overflow guards in push/add; moving the nesting-depth check.
4. Build and test with: cmake -S {d} -B {d}/_b -G Ninja -DWITH_TESTS=ON -DCMAKE_BUILD_TYPE=RelWithDebInfo -DCMAKE_C_FLAGS=-Wno-error && cmake --build {d}/_b -j4 && ctest --test-dir {d}/_b -j4   -- all 26 test executables (301 cmocka cases) must still pass WITH your change. Do not edit anything under test/.
5. Write a demonstration: a small C program {d}/demo/demo.c and a script {d}/demo/run.sh that builds it against the library sources of this worktree (e.g. compile src/*.c src/cbor/*.c src/cbor/internal/*.c directly with -I{d}/src -I{d}/_b -I{d}/_b/src, plus -lm, -lpthread / sanitizers if you need them) and runs it; run.sh must exit 0 when the property holds on the demonstrated case and non-zero when it is violated. Verify BOTH directions yourself. Do NOT use `git stash` (shared between sibling worktrees). Toggle your change with:  git -C {d} diff -- src > {d}/demo/patch.diff ; git -C {d} apply -R {d}/demo/patch.diff ; (run demo: must pass) ; git -C {d} apply {d}/demo/patch.diff ; (run demo: must fail).
6. Leave the change applied in the working tree (uncommitted). {d}/demo/patch.diff must equal `git -C {d} diff -- src`. Write {d}/demo/README.md saying what was changed, why the existing tests do not notice, and exactly what is needed for the violation to manifest.

Your final answer: a short summary (what you changed, what triggers it, test-suite result, demo result with and without the change)."""
    open(f'{rd}/prompts/{pid}.txt', 'w').write(t)
print("ok")
