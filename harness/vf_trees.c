#include "vf_trees.h"

#include <math.h>

static vt_choices* C;
static unsigned pos;
static bool failed;
static unsigned pick(unsigned n) {
  if (pos >= VT_MAXCHOICES) return 0;
  unsigned v = pos < VT_MAXCHOICES ? C->c[pos] : 0;
  if (v >= n) v = 0; /* cannot happen for vectors produced by vt_next */
  C->arity[pos] = (uint8_t)n;
  C->c[pos] = (uint8_t)v;
  pos++;
  return v;
}
static cbor_item_t* chk(cbor_item_t* it) {
  if (!it) failed = true;
  return it;
}
static const uint64_t V8[] = {0, 23, 24, 255}, V16[] = {0, 24, 255, 256, 65535}, V32[] = {0, 65535, 65536, 0xffffffffu},
                      V64[] = {0, 0xffffffffull, 0x100000000ull, UINT64_MAX};
static cbor_item_t* mk_int(bool neg, unsigned w, unsigned vi) {
  cbor_item_t* it = NULL;
  switch (w) {
    case 0: it = neg ? cbor_build_negint8((uint8_t)V8[vi]) : cbor_build_uint8((uint8_t)V8[vi]); break;
    case 1: it = neg ? cbor_build_negint16((uint16_t)V16[vi]) : cbor_build_uint16((uint16_t)V16[vi]); break;
    case 2: it = neg ? cbor_build_negint32((uint32_t)V32[vi]) : cbor_build_uint32((uint32_t)V32[vi]); break;
    default: it = neg ? cbor_build_negint64(V64[vi]) : cbor_build_uint64(V64[vi]);
  }
  return chk(it);
}
/* the same integers through the new / set / mark path (and a value overwritten once) */
static cbor_item_t* mk_int_setters(bool neg, unsigned w, unsigned vi) {
  cbor_item_t* it = w == 0 ? cbor_new_int8() : w == 1 ? cbor_new_int16() : w == 2 ? cbor_new_int32() : cbor_new_int64();
  if (!chk(it)) return NULL;
  switch (w) {
    case 0: cbor_set_uint8(it, 0x5a); cbor_set_uint8(it, (uint8_t)V8[vi]); break;
    case 1: cbor_set_uint16(it, 0x5a5a); cbor_set_uint16(it, (uint16_t)V16[vi]); break;
    case 2: cbor_set_uint32(it, 0x5a5a5a5a); cbor_set_uint32(it, (uint32_t)V32[vi]); break;
    default: cbor_set_uint64(it, 0x5a5a5a5a5a5a5a5aull); cbor_set_uint64(it, V64[vi]);
  }
  if (neg) cbor_mark_negint(it); else { cbor_mark_negint(it); cbor_mark_uint(it); }
  return it;
}
static const unsigned char BYTES24[65600] = "abcdefghijklmnopqrstuvwx";
static cbor_item_t* mk_bytes(unsigned li) {
  static const size_t L[] = {0, 1, 23, 24, 255, 256, 65535, 65536};
  if (li == 8) return chk(cbor_new_definite_bytestring()); /* never given a handle: length 0, data NULL - a legal empty string */
  if (li == 9) { /* a handle attached and then replaced by (NULL, 0) */
    cbor_item_t* it = cbor_new_definite_bytestring();
    if (chk(it)) cbor_bytestring_set_handle(it, NULL, 0);
    return it;
  }
  return chk(cbor_build_bytestring(BYTES24, L[li]));
}
static cbor_item_t* mk_text(unsigned ti) {
  switch (ti) {
    case 0: return chk(cbor_build_string(""));
    case 1: return chk(cbor_build_string("a"));
    case 2: return chk(cbor_build_string("\xc3\xa9\xe2\x82\xac"));
    case 3: return chk(cbor_build_stringn("\xff\x61", 2)); /* invalid UTF-8 */
    case 4: return chk(cbor_build_stringn((const char*)BYTES24, 24));
    case 6: return chk(cbor_build_stringn((const char*)BYTES24, 255));
    case 7: return chk(cbor_build_stringn((const char*)BYTES24, 256));
    case 8: return chk(cbor_build_stringn((const char*)BYTES24, 65535));
    case 9: return chk(cbor_build_stringn((const char*)BYTES24, 65536));
    case 10: return chk(cbor_new_definite_string()); /* never given a handle: length 0, data NULL */
    case 11: {
      cbor_item_t* it = cbor_new_definite_string();
      if (chk(it)) cbor_string_set_handle(it, NULL, 0);
      return it;
    }
    default: { /* new + set_handle path */
      cbor_item_t* it = cbor_new_definite_string();
      if (!chk(it)) return NULL;
      unsigned char* h = _cbor_malloc(3);
      if (!h) {
        failed = true;
        cbor_decref(&it);
        return NULL;
      }
      memcpy(h, "xyz", 3);
      cbor_string_set_handle(it, h, 3);
      return it;
    }
  }
}
static cbor_item_t* mk_indef_string(bool text, unsigned nchunks) {
  cbor_item_t* s = text ? cbor_new_indefinite_string() : cbor_new_indefinite_bytestring();
  if (!chk(s)) return NULL;
  for (unsigned i = 0; i < nchunks; i++) {
    cbor_item_t* ch = text ? (i ? cbor_build_string("") : cbor_build_string("ab")) : (i ? cbor_build_bytestring(BYTES24, 0) : cbor_build_bytestring(BYTES24, 2));
    if (!chk(ch)) break;
    bool ok = text ? cbor_string_add_chunk(s, ch) : cbor_bytestring_add_chunk(s, ch);
    if (!ok) failed = true;
    cbor_decref(&ch);
  }
  return s;
}
static cbor_item_t* mk_float(unsigned w, unsigned vi) {
  /* 7..11: values no half represents (too large, inexact, too small): constructible; C07/C11 speak of every item, C03 does not */
  static const float H[] = {0.0f, -0.0f, 1.5f, 65504.0f, 5.960464477539063e-8f, 0, 0, 65536.0f, -100000.0f, 1.1f, 1.0e-10f, 3.0e+38f};
  static const float S[] = {0.0f, 100000.0f, 3.4028234663852886e+38f, -1.0e-40f, 1.5f};
  static const double D[] = {0.0, 1.1, -4.1, 1.0e+300, 4.9e-324};
  if (vi == 5) return chk(w == 0 ? cbor_build_float2(NAN) : w == 1 ? cbor_build_float4(-NAN) : cbor_build_float8(NAN));
  if (vi == 6) return chk(w == 0 ? cbor_build_float2(INFINITY) : w == 1 ? cbor_build_float4(-INFINITY) : cbor_build_float8(-INFINITY));
  if (vi == 2) { /* new + set path */
    cbor_item_t* it = w == 0 ? cbor_new_float2() : w == 1 ? cbor_new_float4() : cbor_new_float8();
    if (!chk(it)) return NULL;
    if (w == 0) { cbor_set_float2(it, 99.0f); cbor_set_float2(it, H[vi]); }
    else if (w == 1) { cbor_set_float4(it, 99.0f); cbor_set_float4(it, S[vi]); }
    else { cbor_set_float8(it, 99.0); cbor_set_float8(it, D[vi]); }
    return it;
  }
  return chk(w == 0 ? cbor_build_float2(H[vi]) : w == 1 ? cbor_build_float4(S[vi]) : cbor_build_float8(D[vi]));
}
static cbor_item_t* mk_simple(unsigned i) {
  switch (i) {
    case 0: return chk(cbor_build_bool(false));
    case 1: { /* true via new_ctrl + set_ctrl + set_bool */
      cbor_item_t* it = cbor_new_ctrl();
      if (!chk(it)) return NULL;
      cbor_set_ctrl(it, 20);
      cbor_set_bool(it, true);
      return it;
    }
    case 2: return chk(cbor_new_null());
    case 3: return chk(cbor_new_undef());
    /* unassigned simple values: constructible, serializable (C07, C11, C18 speak of every item), not decodable (outside C03's domain) */
    case 4: return chk(cbor_build_ctrl(0));
    case 5: return chk(cbor_new_ctrl());
    case 6: return chk(cbor_build_ctrl(19));
    case 7: return chk(cbor_build_ctrl(32));
    default: return chk(cbor_build_ctrl(255));
  }
}

/* tiny: children of depth-2 containers; small: children of depth-1 containers; full: top level */
enum { G_TINY, G_SMALL, G_FULL };
static cbor_item_t* gen(int depth, int g);

static cbor_item_t* gen_leaf(int g) {
  if (g == G_TINY) {
    switch (pick(3)) {
      case 0: return mk_int(false, 0, 1);
      case 1: return mk_text(1);
      default: return mk_indef_string(false, 1);
    }
  }
  if (g == G_SMALL) {
    switch (pick(9)) {
      case 0: return mk_int(false, 0, 1);
      case 1: return mk_int(true, 1, 3);
      case 2: return mk_bytes(1);
      case 3: return mk_text(2);
      case 4: return mk_float(0, 2);
      case 5: return mk_indef_string(true, 2);
      case 6: return mk_simple(2);
      case 7: return mk_int(false, 3, 3);
      default: return mk_simple(4);
    }
  }
  switch (pick(8)) {
    case 0: { unsigned w = pick(4), vi = pick(w == 1 ? 5 : 4); return pick(2) ? mk_int_setters(false, w, vi) : mk_int(false, w, vi); }
    case 1: { unsigned w = pick(4), vi = pick(w == 1 ? 5 : 4); return pick(2) ? mk_int_setters(true, w, vi) : mk_int(true, w, vi); }
    case 2: return mk_bytes(pick(10));
    case 3: return mk_text(pick(13));
    case 4: return mk_indef_string(false, pick(3));
    case 5: return mk_indef_string(true, pick(3));
    case 6: { unsigned w = pick(3); return mk_float(w, pick(w == 0 ? 12 : 7)); }
    default: return mk_simple(pick(9));
  }
}
static void push_or_fail(cbor_item_t* arr, cbor_item_t* x) {
  if (!x) return;
  if (!cbor_array_push(arr, x)) failed = true;
}
static cbor_item_t* gen_container(int depth, int g) {
  int cg = g == G_FULL ? G_SMALL : G_TINY;
  unsigned maxfill = 2; /* elements per array */
  switch (pick(7)) {
    case 0: { /* definite array, capacity c (up to 3), filled with f <= min(c, 2) */
      unsigned c = pick(g == G_FULL ? 4 : 3), f = pick((c < maxfill ? c : maxfill) + 1);
      cbor_item_t* a = cbor_new_definite_array(c);
      if (!chk(a)) return NULL;
      for (unsigned i = 0; i < f; i++) {
        cbor_item_t* x = gen(depth - 1, cg);
        push_or_fail(a, x);
        if (x) cbor_decref(&x);
      }
      return a;
    }
    case 1: {
      unsigned f = pick(maxfill + 1);
      cbor_item_t* a = cbor_new_indefinite_array();
      if (!chk(a)) return NULL;
      for (unsigned i = 0; i < f; i++) {
        cbor_item_t* x = gen(depth - 1, cg);
        push_or_fail(a, x);
        if (x) cbor_decref(&x);
      }
      return a;
    }
    case 2:
    case 3: { /* maps: 0..2 pairs; two-pair maps take leaves only (keeps the space finite and small) */
      bool def = C->c[pos - 1] == 2;
      unsigned c = pick(3), f = def ? pick(c + 1) : c;
      cbor_item_t* m = def ? cbor_new_definite_map(c) : cbor_new_indefinite_map();
      if (!chk(m)) return NULL;
      for (unsigned i = 0; i < f; i++) {
        cbor_item_t* k = f == 2 ? gen_leaf(G_TINY) : gen(depth - 1, cg);
        cbor_item_t* v = f == 2 ? gen_leaf(G_TINY) : gen(depth - 1, cg);
        if (k && v && !cbor_map_add(m, (struct cbor_pair){.key = k, .value = v})) failed = true;
        if (k) cbor_decref(&k);
        if (v) cbor_decref(&v);
      }
      return m;
    }
    case 4: {
      /* tag numbers on both sides of every head-width boundary, and of the signed 32-bit maximum */
      static const uint64_t TV[] = {0, UINT64_MAX, 23, 24, 65536, 255, 256, 65535, 0x7fffffffull, 0x80000000ull, 0xffffffffull, 0x100000000ull};
      uint64_t tv = TV[pick(g == G_FULL ? 12 : 2)];
      unsigned how = pick(2);
      cbor_item_t* x = gen(depth - 1, cg);
      if (!x) return NULL;
      cbor_item_t* t = how ? cbor_build_tag(tv, x) : cbor_new_tag(tv);
      if (chk(t) && !how) cbor_tag_set_item(t, x);
      cbor_decref(&x);
      return t;
    }
    case 5: { /* one item shared by 2, 3 or 4 adjacent array slots (a run of identical references), or by the first and the last of 3 */
      unsigned flav = pick(2), share = pick(4);
      unsigned cnt = share == 3 ? 3 : share + 2;
      cbor_item_t* x = gen(depth - 1, cg);
      cbor_item_t* a = flav ? cbor_new_definite_array(cnt) : cbor_new_indefinite_array();
      if (chk(a) && x) {
        for (unsigned i = 0; i < cnt; i++) {
          if (share == 3 && i == 1) {
            cbor_item_t* mid = cbor_build_uint8(7);
            if (chk(mid)) { push_or_fail(a, mid); cbor_decref(&mid); }
          } else
            push_or_fail(a, x);
        }
      }
      if (x) cbor_decref(&x);
      return a;
    }
    default: { /* one item used as key and value, and again in a second pair */
      unsigned flav = pick(2);
      cbor_item_t* x = gen(depth - 1, cg);
      cbor_item_t* m = flav ? cbor_new_definite_map(2) : cbor_new_indefinite_map();
      if (chk(m) && x) {
        if (!cbor_map_add(m, (struct cbor_pair){.key = x, .value = x})) failed = true;
        if (!cbor_map_add(m, (struct cbor_pair){.key = x, .value = x})) failed = true;
      }
      if (x) cbor_decref(&x);
      return m;
    }
  }
}
static cbor_item_t* gen(int depth, int g) {
  if (depth <= 0) return gen_leaf(g);
  if (pick(2) == 0) return gen_leaf(g);
  return gen_container(depth, g);
}
unsigned vt_top_arity(int depth) { return depth > 0 ? 2 : 8; }
cbor_item_t* vt_build(vt_choices* ch, int depth) {
  C = ch;
  pos = 0;
  failed = false;
  cbor_item_t* it = gen(depth, G_FULL);
  ch->n = pos;
  for (unsigned i = pos; i < VT_MAXCHOICES; i++) ch->c[i] = 0;
  if (failed && it) cbor_decref(&it);
  return failed ? NULL : it;
}
bool vt_next(vt_choices* ch) {
  for (int i = (int)ch->n - 1; i >= (int)ch->fixed; i--) {
    if (ch->c[i] + 1u < ch->arity[i]) {
      ch->c[i]++;
      for (unsigned j = (unsigned)i + 1; j < VT_MAXCHOICES; j++) ch->c[j] = 0;
      return true;
    }
  }
  return false;
}
void vt_describe(const vt_choices* ch, vf_sb* out) {
  vf_sb_printf(out, "choices");
  for (unsigned i = 0; i < ch->n; i++) vf_sb_printf(out, " %u/%u", ch->c[i], ch->arity[i]);
}
