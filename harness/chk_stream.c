/* C08: per-call contract of cbor_stream_decode, decided by complete enumeration of
 * (initial byte, argument, buffer length) against the reference tokeniser, with a recording
 * callback table, a counting allocator and the buffer flush against a guard page. */
#define _GNU_SOURCE
#include <inttypes.h>

#include "cbor.h"
#include "vf.h"
#include "vf_alloc.h"
#include "vf_rec.h"
#include "vf_ref.h"

enum { K_FIN = VC_USER, K_NED, K_ERR, K_REPEAT, K_FOLLOW, K_STRINGS, K_BIGLEN, K_INTERFERE };
#define SUB 16

static vf_sb sb;
struct sdres {
  struct cbor_decoder_result r;
  vf_rec rec;
};
static void call(const uint8_t* p, size_t n, struct sdres* o) {
  vf_rec_reset(&o->rec);
  o->r = cbor_stream_decode(p, n, &vf_rec_callbacks, &o->rec);
}
static bool same(const struct sdres* a, const uint8_t* pa, const struct sdres* b, const uint8_t* pb) {
  if (a->r.status != b->r.status || a->r.read != b->r.read || a->rec.ncalls != b->rec.ncalls) return false;
  if (a->r.status == CBOR_DECODER_NEDATA && a->r.required != b->r.required) return false;
  if (a->rec.ncalls == 1) {
    vf_event x = a->rec.ev[0], y = b->rec.ev[0];
    if (x.ptr) x.ptr = (const uint8_t*)(x.ptr - pa);
    if (y.ptr) y.ptr = (const uint8_t*)(y.ptr - pb);
    if (!vf_event_equal(&x, &y)) return false;
  }
  return true;
}

/* one case: head bytes hb[0..hl) (possibly truncated by n), buffer length n, byte following the item `follow` */
static void run_case(const uint8_t* hb, size_t hl, size_t n, int follow, bool distinct) {
  uint8_t desc[8 + 16 + 1];
  uint64_t n64 = n;
  memcpy(desc, &n64, 8);
  memset(desc + 8, 0x5a, 16);
  memcpy(desc + 8, hb, hl);
  desc[24] = (uint8_t)follow;
  vf_case("sd", desc, sizeof desc);
  vf_cnt(VC_EVAL, 1);
  vf_cnt(VC_TRACES, 1);

  uint8_t* end = vf_guard_end();
  uint8_t* p = end - n;
  /* payload bytes are whatever the pattern holds; only the head is written */
  memcpy(p, hb, hl < n ? hl : n);
  for (size_t i = hl; i < n && i < hl + 64; i++) p[i] = 0x5a; /* deterministic bytes right after the head */
  rhead h;
  int hr = ref_head(p, n, 0, &h);
  if (hr == RH_OK && h.full < n && follow >= 0) p[(size_t)h.full] = (uint8_t)follow;

  va_reset();
  struct sdres a;
  call(p, n, &a);
  if (va.requests) vf_fail(NULL, "cbor_stream_decode made %" PRIu64 " allocator requests", va.requests);
  vf_outcome(vf_mix(a.r.status, vf_mix(hr, a.rec.ncalls == 1 ? (uint64_t)a.rec.ev[0].slot : 99)));
  vf_state(vf_mix(hr, vf_mix(n > 0 ? p[0] : 0x100, n < 12 ? n : 12)));
  vf_cnt(VC_TRANS, 1);

  if (hr == RH_OK) {
    vf_cnt(K_FIN, 1);
    if (distinct) vf_cnt(VC_DISTINCT, 1);
    vf_event e;
    vf_expected_event(p, 0, &h, &e);
    if (a.r.status != CBOR_DECODER_FINISHED)
      vf_fail(NULL, "complete head (%zu bytes) not FINISHED: status %d", (size_t)h.full, a.r.status);
    else {
      if (a.rec.ncalls != 1) vf_fail(NULL, "FINISHED with %u callbacks", a.rec.ncalls);
      else if (!vf_event_equal(&a.rec.ev[0], &e)) {
        vf_sb_reset(&sb);
        vf_event_render(&a.rec.ev[0], p, &sb);
        vf_sb_printf(&sb, " expected ");
        vf_event_render(&e, p, &sb);
        vf_fail(NULL, "wrong callback/arguments: %s", sb.s);
      }
      if (a.r.read != (size_t)h.full) vf_fail(NULL, "read = %zu, head+payload occupy %zu", a.r.read, (size_t)h.full);
    }
  } else if (hr == RH_NEED) {
    vf_cnt(K_NED, 1);
    if (distinct) vf_cnt(VC_DISTINCT, 1);
    if (h.need > (unsigned __int128)UINT64_MAX) vf_cnt(K_BIGLEN, 1);
    if (a.r.status != CBOR_DECODER_NEDATA)
      vf_fail(NULL, "incomplete head/payload not NEDATA: status %d", a.r.status);
    else {
      if (a.rec.ncalls) vf_fail(NULL, "NEDATA but %u callbacks fired", a.rec.ncalls);
      if (a.r.read) vf_fail(NULL, "NEDATA with read = %zu", a.r.read);
      if (!(a.r.required > n))
        vf_fail(h.need > (unsigned __int128)UINT64_MAX ? "required-wraps-for-huge-declared-length" : NULL,
                "NEDATA with required = %zu, not greater than the %zu bytes supplied (a conforming client would wait forever)", a.r.required, n);
      else if ((unsigned __int128)a.r.required > h.need)
        vf_fail(NULL, "NEDATA with required = %zu, more than the pending item occupies (%" PRIu64 "%s)", a.r.required, (uint64_t)h.need,
                h.need > (unsigned __int128)UINT64_MAX ? "+2^64" : "");
    }
  } else {
    vf_cnt(K_ERR, 1);
    if (a.r.status != CBOR_DECODER_ERROR) vf_fail(NULL, "reserved/unsupported initial byte %02x not ERROR: status %d", p[0], a.r.status);
    if (a.rec.ncalls) vf_fail(NULL, "ERROR but %u callbacks fired", a.rec.ncalls);
    if (a.r.read) vf_fail(NULL, "ERROR with read = %zu", a.r.read);
  }
  /* no hidden state: other calls in between - at other addresses AND at this very address with the same initial byte but other
   * argument bytes (a decoder that remembers "what I said last time about this buffer" is caught only by the latter) - then the
   * same call again */
  {
    static const uint8_t o1[] = {0x19}, o2[] = {0x1c, 0, 0}, o3[] = {0x5f}, o4[] = {0x7b, 0xff, 0xff, 0xff, 0xff, 0xff, 0xff, 0xff, 0xff};
    struct sdres t, a2;
    call(o1, sizeof o1, &t);
    call(o2, sizeof o2, &t);
    call(o3, sizeof o3, &t);
    call(o4, 4, &t);
    if (hl > 1 && n > 1) {
      /* interfering heads Y at the same address: argument bytes all zero, all ones, and the original with the last byte changed */
      for (int variant = 0; variant < 3; variant++) {
        uint8_t save[9];
        size_t have = (hl < n ? hl : n);
        memcpy(save, p, have);
        for (size_t i = 1; i < have; i++) p[i] = variant == 0 ? 0x00 : variant == 1 ? 0xff : save[i];
        if (variant == 2) p[have - 1] ^= 0x5b;
        struct sdres y;
        call(p, n, &y);
        rhead hy;
        int ry = ref_head(p, n, 0, &hy);
        vf_cnt(K_INTERFERE, 1);
        bool oky = ry == RH_OK ? (y.r.status == CBOR_DECODER_FINISHED && y.rec.ncalls == 1 && y.r.read == (size_t)hy.full)
                 : ry == RH_NEED ? (y.r.status == CBOR_DECODER_NEDATA && y.rec.ncalls == 0 && y.r.read == 0 && y.r.required > n && (unsigned __int128)y.r.required <= hy.need)
                                 : (y.r.status == CBOR_DECODER_ERROR && y.rec.ncalls == 0);
        if (!oky)
          vf_fail(NULL, "a second head with the same initial byte but other argument bytes, decoded at the same address right after this one, is answered with status %d read %zu required %zu "
                        "(the decoder keeps state between calls)", y.r.status, y.r.read, y.r.required);
        memcpy(p, save, have);
      }
    }
    call(p, n, &a2);
    vf_cnt(K_REPEAT, 1);
    if (!same(&a, p, &a2, p)) vf_fail(NULL, "same call repeated after other calls gives a different result (hidden state)");
  }
  /* a FINISHED result does not depend on any byte beyond `read`: cut the buffer to exactly read bytes */
  if (hr == RH_OK && a.r.status == CBOR_DECODER_FINISHED && a.r.read <= n && a.r.read < n) {
    size_t rd = a.r.read;
    uint8_t* q = end - rd;
    memmove(q, p, rd);
    struct sdres c;
    call(q, rd, &c);
    vf_cnt(K_FOLLOW, 1);
    if (!same(&a, p, &c, q)) vf_fail(NULL, "FINISHED result changes when the bytes after `read` are removed");
  }
  if ((vf_cnt_get_local(VC_EVAL) & 0x3ffff) == 4097) {
    char hx[40];
    vf_hex(hx, sizeof hx, hb, hl);
    vf_sample("head %s, buffer of %zu bytes: status=%d read=%zu required=%zu callbacks=%u ; tokeniser: %s", hx, n, a.r.status, a.r.read, a.r.required, a.rec.ncalls, hr == RH_OK ? "complete" : hr == RH_NEED ? "incomplete" : "reserved");
  }
  if (vf_replaying) {
    vf_sb_reset(&sb);
    if (a.rec.ncalls) vf_event_render(&a.rec.ev[0], p, &sb);
    fprintf(stderr, "stream_decode(n=%zu): status=%d read=%zu required=%zu callbacks=%u %s ; reference: %s need=%" PRIu64 " full=%" PRIu64 "\n", n, a.r.status,
            a.r.read, a.r.required, a.rec.ncalls, sb.s ? sb.s : "", hr == RH_OK ? "OK" : hr == RH_NEED ? "NEED" : "BAD", (uint64_t)h.need, (uint64_t)h.full);
  }
}

static void for_arg(uint8_t ib, unsigned argw, uint64_t arg) {
  uint8_t hb[9];
  size_t hl = 1 + argw;
  hb[0] = ib;
  for (unsigned i = 0; i < argw; i++) hb[1 + i] = (uint8_t)(arg >> (8 * (argw - 1 - i)));
  unsigned mt = ib >> 5, ai = ib & 31;
  bool defstr = (mt == 2 || mt == 3) && ai <= 27;
  uint64_t len = defstr ? (argw ? arg : ai) : 0;
  /* buffers longer than the head: a decoder may take a different path once "enough" bytes are present (the longest head has 9) */
  size_t nmax = vf_tier ? 40 : 20;
  for (size_t n = 0; n <= (nmax > hl + 1 ? nmax : hl + 1); n++) {
    run_case(hb, hl, n, -1, true);
    if (n == hl + 1) {
      run_case(hb, hl, n, 0x00, false);
      run_case(hb, hl, n, 0xff, false);
      run_case(hb, hl, n, 0x1c, false);
    }
  }
  if (defstr && len > 0) {
    vf_cnt(K_STRINGS, 1);
    /* buffer lengths around the end of the payload (those that fit the guard buffer) */
    for (int d = -1; d <= 1; d++) {
      unsigned __int128 n = (unsigned __int128)hl + len + d;
      if (n <= hl + 1 || n > VF_GUARD_MAX) continue;
      run_case(hb, hl, (size_t)n, -1, true);
      if (d == 1) run_case(hb, hl, (size_t)n, 0xff, false);
    }
    /* and, for huge declared lengths, as much payload as the buffer can hold */
    if ((unsigned __int128)hl + len > VF_GUARD_MAX) {
      run_case(hb, hl, 4096, -1, true);
      run_case(hb, hl, 9 + 1, -1, false);
      run_case(hb, hl, 9 + 2, -1, false);
    }
  }
}

static void unit(uint64_t u) {
  uint8_t ib = (uint8_t)(u / SUB);
  unsigned sub = (unsigned)(u % SUB);
  unsigned ai = ib & 31;
  unsigned argw = ai < 24 ? 0 : ai < 28 ? 1u << (ai - 24) : 0;
  if (argw == 0) {
    if (sub == 0) for_arg(ib, 0, 0);
  } else if (argw == 1) {
    for (unsigned v = sub; v < 256; v += SUB) for_arg(ib, 1, v);
  } else if (argw == 2) {
    for (unsigned v = sub; v < 65536; v += SUB) for_arg(ib, 2, v);
  } else if (argw == 4) {
    for (unsigned i = sub; i < VF_NS32; i += SUB) for_arg(ib, 4, VF_S32[i]);
    if (vf_tier) /* thorough: every value of every byte position, and a dense stride */
      for (uint64_t v = sub; v < (1ull << 32); v += SUB * 4099ull) for_arg(ib, 4, v);
  } else {
    for (unsigned i = sub; i < VF_NS64; i += SUB) for_arg(ib, 8, VF_S64[i]);
    if (vf_tier)
      for (unsigned byte = 0; byte < 8; byte++)
        for (unsigned v = sub; v < 256; v += SUB) for_arg(ib, 8, (uint64_t)v << (8 * byte) | 0x0101010101010101ull);
  }
}
static uint64_t units(void) { return 256 * SUB; }
static void init(void) {
  vf_sets_init();
  va_install();
  vf_guard_end();
  vf_extra("structured_sets", "|S32| = %u, |S64| = %u (2^k, 2^k+-1, width boundaries +-1, byte-distinct patterns, 2^w-1-j for j<=16)", VF_NS32, VF_NS64);
}
static void replay(const char* tag, const uint8_t* d, size_t len) {
  (void)tag;
  if (len < 25) return;
  uint64_t n;
  memcpy(&n, d, 8);
  uint8_t hb[9];
  memcpy(hb, d + 8, 9);
  unsigned ai = hb[0] & 31;
  size_t hl = 1 + (ai < 24 ? 0 : ai < 28 ? 1u << (ai - 24) : 0);
  run_case(hb, hl, (size_t)n, d[24] == 0x5a ? -1 : d[24], false);
}
struct vf_check vf_the_check = {
    .property = "C08",
    .level = "exploration",
    .rule = "cases = (initial byte, argument value, buffer length n, following byte): all 256 initial bytes; arguments exhaustive for 1- and 2-byte widths, the "
            "structured sets S32/S64 for 4- and 8-byte widths; n = 0..max(head+1, 20) (thorough: 40) and, for definite strings, payload end -1/0/+1 (and 4096 / 10 / 11 bytes for "
            "declared lengths that cannot be supplied); distinct_nontrivial = distinct (initial byte, argument, n) triples (the follow-byte and repeat variants "
            "are not counted); states = distinct (tokeniser verdict, initial byte, min(n,12)) classes",
    .bounds = {"all initial bytes x all 1/2-byte arguments x structured 4/8-byte arguments x all buffer lengths 0..20 (+ payload boundaries)",
               "as quick with buffer lengths 0..40 for every argument, plus a stride-4099 sweep of all 32-bit arguments and every value of every byte position of 64-bit arguments"},
    .assumptions = {"reference tokeniser vf_ref.c:ref_head (RFC 8949 section 3) is correct; pinned by ./vf setup",
                    "buffer is flush against a PROT_NONE page: any read past n bytes is a SIGSEGV attributed to the case",
                    "the clause 'keeps no state between calls' is checked behaviourally here (same call after other calls gives the same result); the store-level "
                    "version (no store outside the call's own stack) is decided by the trace build of C17",
                    "value of `required` on FINISHED/ERROR is documented in data.h but not part of C08: recorded, not judged"},
    .counters = {[VC_EVAL] = "decoder_calls_judged", [VC_DISTINCT] = "distinct_triples", [VC_TRANS] = "tokeniser_verdicts", [VC_TRACES] = "executed_on_implementation",
                 [K_FIN] = "expected_FINISHED", [K_NED] = "expected_NEDATA", [K_ERR] = "expected_ERROR", [K_REPEAT] = "repeat_after_other_calls",
                 [K_FOLLOW] = "cut_to_read_reruns", [K_STRINGS] = "definite_string_heads_with_payload", [K_BIGLEN] = "NEDATA_with_need_above_2^64", [K_INTERFERE] = "interfering_calls_at_the_same_address"},
    .init = init, .units = units, .unit = unit, .replay = replay, .state_bits = 16};
