/* Racy control for the explorer self-test: compiled WITH the trace instrumentation, like the library. */
volatile int vf_racy_x;
void vf_racy_body(void) {
  int v = vf_racy_x; /* load */
  vf_racy_x = v + 1; /* store: an unsynchronised read-modify-write */
}
