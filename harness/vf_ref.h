/* Reference oracles, written from RFC 8949 (section 3, Appendix C), RFC 3629 and IEEE 754,
 * deliberately boring and independent of libcbor's sources. */
#ifndef VF_REF_H
#define VF_REF_H
#include <stdbool.h>
#include <stddef.h>
#include <stdint.h>

#include "vf.h"

/* ---- error codes as cbor_error_code values (kept numerically identical, asserted in selftest) */
enum { R_NONE = 0, R_NEDATA = 1, R_NODATA = 2, R_MALF = 3, R_MEM = 4, R_SYN = 5 };

/* ---- tokeniser ------------------------------------------------------------------------- */
enum { RH_OK = 0, RH_NEED = 1, RH_BAD = 2 };
typedef struct {
  uint8_t ib, mt, ai;
  bool indef;            /* ai == 31 on a type that allows it */
  bool is_break;
  uint64_t arg;          /* argument value (0 when indef) */
  unsigned argw;         /* argument bytes following the initial byte: 0,1,2,4,8 */
  size_t hl;             /* header length 1 + argw */
  uint64_t plen;         /* payload length for definite strings, else 0 */
  unsigned __int128 full;/* hl + plen as a mathematical integer */
  unsigned __int128 need;/* RH_NEED: smallest total length (from p) that could make progress */
} rhead;
int ref_head(const uint8_t* b, size_t n, size_t p, rhead* h);

/* ---- trees ----------------------------------------------------------------------------- */
enum {
  RK_UINT, RK_NEGINT, RK_BYTES, RK_TEXT, RK_BYTES_INDEF, RK_TEXT_INDEF,
  RK_ARRAY, RK_ARRAY_INDEF, RK_MAP, RK_MAP_INDEF, RK_TAG, RK_SIMPLE, RK_FLOAT
};
typedef struct rnode {
  uint8_t kind;
  uint8_t width;          /* ints, floats: 8/16/32/64 */
  bool isnan;
  uint64_t val;           /* int value | tag number | simple value | float bits (16/32: binary32 bits of the value, 64: binary64 bits); 0 for NaN */
  const uint8_t* bytes;   /* definite strings */
  size_t len;
  int64_t cp;             /* text: RFC 3629 scalar count, 0 if invalid (as the property defines) */
  struct rnode** kids;    /* arrays: elements; maps: k0,v0,k1,v1..; tag: 1 kid; indef strings: chunks */
  size_t nkids, kcap;
  /* only filled by the walker (observed on the implementation) */
  size_t refcount, allocated;
  const void* addr;       /* address of the cbor_item_t */
  const void* buf;        /* address of the data / chunk-table / handle buffer, if separately allocated */
  const void* buf2;       /* indefinite strings: chunk table */
} rnode;

void ref_arena_reset(void);
void* ref_arena_alloc(size_t n);
rnode* ref_new(int kind);
void ref_add_kid(rnode* p, rnode* k);

/* ---- reference decoder ----------------------------------------------------------------- */
typedef struct {
  bool ok;
  rnode* tree;
  size_t read;            /* ok: encoded length of the first item */
  int nverd;              /* !ok: admissible (code, position) verdicts (1 or 2) */
  struct { int code; size_t pos; } verd[2];
  bool predicted_refusal; /* verdict relies on the harness allocator refusing an over-cap request */
  uint64_t heads;         /* heads consumed (transitions of the pushdown) */
  size_t max_depth;
} rdecode;
/* L = nesting limit; alloc_cap = largest request the allocator grants (bytes);
 * on_state (may be NULL) is called with a hash of the abstract stack configuration after each head */
void ref_decode(const uint8_t* b, size_t n, size_t L, uint64_t alloc_cap, void (*on_state)(uint64_t), rdecode* out);

/* ---- reference encoder (wording of C03) ------------------------------------------------ */
/* returns encoded length, or 0 if the tree is outside the property's domain (simple 24..31,
 * half item holding a non-half value, tag without item) ; writes at most cap bytes */
size_t ref_encode(const rnode* t, uint8_t* out, size_t cap);
/* with ref_lossy_half_ok set, a half-width float item whose value no half represents is encoded as 3 placeholder bytes (only the size
 * is meaningful) and counted in ref_lossy_halves, instead of putting the tree outside the domain */
extern bool ref_lossy_half_ok;
extern unsigned ref_lossy_halves;
size_t ref_encoded_size(const rnode* t);
/* one head: major type mt, argument v, force_w = 0 (shortest) | 8 (immediate up to 23, else one byte) | 16 | 32 | 64 | -1 (immediate); returns its length */
size_t ref_put_head(uint8_t* out, size_t cap, size_t o, uint8_t mt, uint64_t v, int force_w);

/* ---- IEEE 754 by integer arithmetic ---------------------------------------------------- */
uint32_t ref_half_to_single_bits(uint16_t h, bool* isnan);
bool ref_single_to_half_exact(uint32_t s, uint16_t* h); /* false if not exactly representable (or NaN) */
/* ---- RFC 3629 --------------------------------------------------------------------------- */
int64_t ref_utf8_count(const uint8_t* s, size_t n); /* -1 if not valid UTF-8 */

/* ---- compare / render ------------------------------------------------------------------ */
#define RC_REFCOUNT1 1    /* require refcount == 1 on every node of b (walker side) */
#define RC_DEF_FULL 2     /* require allocated == size on definite containers of b */
#define RC_NO_CP 4        /* do not compare code point counts */
bool ref_equal(const rnode* a, const rnode* b, int flags, vf_sb* why);
void ref_render(const rnode* t, vf_sb* out);
uint64_t ref_tree_hash(const rnode* t);
#endif
