/* Explorer E2: breadth-first search over ALL histories of public-API calls made by a rule-following client
 * with K = 3 reference slots, deduplicated by a canonical form of the shadow ownership graph, to fixpoint
 * inside the stated size bounds.  Every transition replays the history on fresh real objects and executes
 * the real call; the shadow graph is the oracle (reference counts, structure, exactly-once release).
 *   -DPROP=4   C04: reference counting frees everything exactly once
 *   -DPROP=13  C13: the same exploration under allocator configurations that make any bypass fatal
 * The search is parallel: every worker is one participant of a level-synchronous BFS over shared memory. */
#define _GNU_SOURCE
#include <inttypes.h>
#include <sys/mman.h>
#include <unistd.h>

#include "cbor.h"
#include "vf.h"
#include "vf_alloc.h"
#if PROP == 13
#include "vf_enum.h"
#include "vf_rec.h"
#include "vf_ref.h"
#include "vf_walk.h"
#endif

#ifndef PROP
#error "compile with -DPROP=4 or 13"
#endif

#define K 3
#define MAXITEMS 24
#define MAXKIDS 8
#define MAXH 30
enum { T_INT, T_BSTR, T_TSTR, T_IBS, T_DARR, T_IARR, T_DMAP, T_IMAP, T_TAG, T_ITS, T_NKINDS };
static const char* TNAME[] = {"int", "bstr", "tstr", "ibs", "darr", "iarr", "dmap", "imap", "tag", "its"};
enum {
  O_MK = 1, O_DECREF, O_IDECREF, O_INCREF, O_SER, O_COPY, O_LOADBACK, O_GET, O_GET_OOB, O_TAG_ITEM, O_BUILD_TAG, O_PUSH, O_MOVE_PUSH, O_PUSH_FULL,
  O_SET, O_SET_OOB, O_REPLACE, O_REPLACE_OOB, O_ADD_CHUNK, O_TAG_SET, O_TAG_SET_OCC, O_MAP_ADD, O_MAP_ADD_FULL, O_MOVE_MAP_ADD, O_LOAD_REJ, O_DESCRIBE, O_NOPS
};
static const char* ONAME[] = {"", "mk", "decref", "intermediate_decref", "incref", "serialize", "copy", "load(serialize)", "array_get", "array_get(out of range)",
                              "tag_item", "build_tag", "array_push", "array_push(cbor_move(x))", "array_push(full)", "array_set", "array_set(out of range)",
                              "array_replace", "array_replace(out of range)", "string/bytestring_add_chunk", "tag_set_item", "tag_set_item(occupied)", "map_add",
                              "map_add(full)", "map_add(cbor_move(k), v)", "load(rejected variants of serialize)", "describe"};
typedef struct { uint8_t op, a, b, c; } op_t; /* meaning of a,b,c depends on op */
typedef struct { uint8_t n; op_t h[MAXH]; uint8_t pad[3]; } hist_t;

/* ---- shadow ownership graph */
typedef struct { int8_t kind; uint8_t cap; uint8_t nk; int8_t kid[MAXKIDS]; bool live; } sitem;
typedef struct { int8_t slot[K]; sitem it[MAXITEMS]; int nit; } shadow;
static cbor_item_t* real[MAXITEMS];

static unsigned MAXI, MAXC;
static enum { EX_OK, EX_FAIL } exec_status;
static char failmsg[512];
#define FAIL(...) do { if (exec_status == EX_OK) { exec_status = EX_FAIL; snprintf(failmsg, sizeof failmsg, __VA_ARGS__); } } while (0)

static int new_item(shadow* s, int kind, int cap) {
  for (int i = 0; i < MAXITEMS; i++)
    if (!s->it[i].live) {
      s->it[i] = (sitem){.kind = (int8_t)kind, .cap = (uint8_t)cap, .nk = 0, .live = true};
      if (i >= s->nit) s->nit = i + 1;
      return i;
    }
  FAIL("shadow item table full");
  return 0;
}
static void reach_rec(const shadow* s, int i, bool* seen) {
  if (seen[i]) return;
  seen[i] = true;
  for (int k = 0; k < s->it[i].nk; k++) reach_rec(s, s->it[i].kid[k], seen);
}
static bool reaches(const shadow* s, int from, int to) {
  bool seen[MAXITEMS] = {0};
  reach_rec(s, from, seen);
  return seen[to];
}
static void gc(shadow* s) {
  bool seen[MAXITEMS] = {0};
  for (int k = 0; k < K; k++)
    if (s->slot[k] >= 0) reach_rec(s, s->slot[k], seen);
  for (int i = 0; i < s->nit; i++)
    if (s->it[i].live && !seen[i]) { s->it[i].live = false; real[i] = NULL; }
}
static int nlive(const shadow* s) {
  int n = 0;
  for (int i = 0; i < s->nit; i++) n += s->it[i].live;
  return n;
}
static int tsize(const shadow* s, int i) {
  int n = 1;
  for (int k = 0; k < s->it[i].nk; k++) n += tsize(s, s->it[i].kid[k]);
  return n;
}
static bool complete(const shadow* s, int i) { /* serializable: every reachable tag has an item */
  if (s->it[i].kind == T_TAG && s->it[i].nk == 0) return false;
  for (int k = 0; k < s->it[i].nk; k++)
    if (!complete(s, s->it[i].kid[k])) return false;
  return true;
}
static int entries(const sitem* it) { return (it->kind == T_DMAP || it->kind == T_IMAP) ? it->nk / 2 : it->nk; }
/* canonical form: minimum over slot permutations of a DFS rendering with back references */
static void canon_visit(const shadow* s, int i, int* num, int* cnt, char* out, size_t* o) {
  if (num[i] >= 0) { *o += (size_t)sprintf(out + *o, "r%d", num[i]); return; }
  num[i] = (*cnt)++;
  *o += (size_t)sprintf(out + *o, "%c%d(", 'a' + s->it[i].kind, s->it[i].cap);
  for (int k = 0; k < s->it[i].nk; k++) { canon_visit(s, s->it[i].kid[k], num, cnt, out, o); out[(*o)++] = ','; }
  out[(*o)++] = ')';
}
static uint64_t canon(const shadow* s, char* best) {
  static const int PERM[6][3] = {{0, 1, 2}, {0, 2, 1}, {1, 0, 2}, {1, 2, 0}, {2, 0, 1}, {2, 1, 0}};
  char cur[1024];
  best[0] = 0;
  for (int p = 0; p < 6; p++) {
    int num[MAXITEMS], cnt = 0;
    size_t o = 0;
    for (int i = 0; i < MAXITEMS; i++) num[i] = -1;
    for (int k = 0; k < K; k++) {
      int sl = s->slot[PERM[p][k]];
      if (sl < 0) cur[o++] = '-'; else canon_visit(s, sl, num, &cnt, cur, &o);
      cur[o++] = '|';
    }
    cur[o] = 0;
    if (!best[0] || strcmp(cur, best) < 0) strcpy(best, cur);
  }
  return vf_hash(best, strlen(best), 99);
}

/* ---- real-side helpers */
static size_t real_nkids(cbor_item_t* it) {
  switch (cbor_typeof(it)) {
    case CBOR_TYPE_ARRAY: return cbor_array_size(it);
    case CBOR_TYPE_MAP: return 2 * cbor_map_size(it);
    case CBOR_TYPE_TAG: return it->metadata.tag_metadata.tagged_item ? 1 : 0;
    case CBOR_TYPE_BYTESTRING: return cbor_bytestring_is_indefinite(it) ? cbor_bytestring_chunk_count(it) : 0;
    case CBOR_TYPE_STRING: return cbor_string_is_indefinite(it) ? cbor_string_chunk_count(it) : 0;
    default: return 0;
  }
}
static cbor_item_t* real_kid(cbor_item_t* it, size_t i) {
  switch (cbor_typeof(it)) {
    case CBOR_TYPE_ARRAY: return cbor_array_handle(it)[i];
    case CBOR_TYPE_MAP: return (i & 1) ? cbor_map_handle(it)[i / 2].value : cbor_map_handle(it)[i / 2].key;
    case CBOR_TYPE_TAG: return it->metadata.tag_metadata.tagged_item;
    case CBOR_TYPE_BYTESTRING: return cbor_bytestring_chunks_handle(it)[i];
    case CBOR_TYPE_STRING: return cbor_string_chunks_handle(it)[i];
    default: return NULL;
  }
}
static cbor_item_t* mk_real(int kind) {
  switch (kind) {
    case T_INT: return cbor_build_uint8(7);
    case T_BSTR: return cbor_build_bytestring((cbor_data) "ab", 2);
    case T_TSTR: return cbor_build_string(""); /* the text kind is the EMPTY string (and so are the chunks of T_ITS); the byte kind is non-empty */
    case T_IBS: return cbor_new_indefinite_bytestring();
    case T_DARR: return cbor_new_definite_array(2);
    case T_IARR: return cbor_new_indefinite_array();
    case T_DMAP: return cbor_new_definite_map(1);
    case T_IMAP: return cbor_new_indefinite_map();
    case T_ITS: return cbor_new_indefinite_string();
    default: return cbor_new_tag(5);
  }
}
static int kind_of_real(cbor_item_t* it) {
  switch (cbor_typeof(it)) {
    case CBOR_TYPE_UINT: case CBOR_TYPE_NEGINT: return T_INT;
    case CBOR_TYPE_BYTESTRING: return cbor_bytestring_is_definite(it) ? T_BSTR : T_IBS;
    case CBOR_TYPE_STRING: return cbor_string_is_definite(it) ? T_TSTR : T_ITS;
    case CBOR_TYPE_ARRAY: return cbor_array_is_definite(it) ? T_DARR : T_IARR;
    case CBOR_TYPE_MAP: return cbor_map_is_definite(it) ? T_DMAP : T_IMAP;
    case CBOR_TYPE_TAG: return T_TAG;
    default: return -1;
  }
}
/* shadow a freshly produced real tree (copy / load): every node becomes a new shadow item */
static int adopt(shadow* s, const shadow* src, int si, cbor_item_t* rp, const char* what) {
  const sitem* m = &src->it[si];
  if (!rp) { FAIL("%s: NULL node", what); return 0; }
  if (kind_of_real(rp) != m->kind) { FAIL("%s produced a %s where the source has a %s", what, kind_of_real(rp) >= 0 ? TNAME[kind_of_real(rp)] : "?", TNAME[m->kind]); return 0; }
  size_t n = real_nkids(rp);
  if (n != m->nk) { FAIL("%s: node has %zu children, source has %d", what, n, m->nk); return 0; }
  int cap = (m->kind == T_DARR || m->kind == T_DMAP) ? entries(m) : 0; /* documented: capacity of the new definite container = size of the source */
  int id = new_item(s, m->kind, cap);
  real[id] = rp;
  for (int k = 0; k < m->nk; k++) {
    int c = adopt(s, src, m->kid[k], real_kid(rp, (size_t)k), what);
    s->it[id].kid[s->it[id].nk++] = (int8_t)c;
  }
  return id;
}

static int lowest_slot_of(const shadow* s, int item) {
  for (int k = 0; k < K; k++)
    if (s->slot[k] == item) return k;
  return -1;
}
/* enumerate enabled operations of a state (a function of the shadow only) */
static int enum_ops(const shadow* s, op_t* out) {
  int n = 0, e = -1, nl = nlive(s);
  for (int k = 0; k < K; k++)
    if (s->slot[k] < 0) { e = k; break; }
  if (e >= 0 && nl < (int)MAXI)
    for (int kd = 0; kd < T_NKINDS; kd++) out[n++] = (op_t){O_MK, (uint8_t)kd, (uint8_t)e, 0};
  for (int a = 0; a < K; a++) {
    if (s->slot[a] < 0) continue;
    int ia = s->slot[a];
    const sitem* A = &s->it[ia];
    bool arr = A->kind == T_DARR || A->kind == T_IARR, map = A->kind == T_DMAP || A->kind == T_IMAP;
    out[n++] = (op_t){O_DECREF, (uint8_t)a, 0, 0};
    out[n++] = (op_t){O_IDECREF, (uint8_t)a, 0, 0};
    if (complete(s, ia)) out[n++] = (op_t){O_SER, (uint8_t)a, 0, 0};
    if (complete(s, ia) && a == lowest_slot_of(s, ia)) out[n++] = (op_t){O_LOAD_REJ, (uint8_t)a, 0, 0};
    if (complete(s, ia) && a == lowest_slot_of(s, ia)) out[n++] = (op_t){O_DESCRIBE, (uint8_t)a, 0, 0};
    if (e >= 0) {
      out[n++] = (op_t){O_INCREF, (uint8_t)a, (uint8_t)e, 0};
      if (complete(s, ia) && nl + tsize(s, ia) <= (int)MAXI) {
        out[n++] = (op_t){O_COPY, (uint8_t)a, (uint8_t)e, 0};
        out[n++] = (op_t){O_LOADBACK, (uint8_t)a, (uint8_t)e, 0};
      }
      if (arr) {
        for (int i = 0; i < A->nk; i++) out[n++] = (op_t){O_GET, (uint8_t)a, (uint8_t)i, (uint8_t)e};
        out[n++] = (op_t){O_GET_OOB, (uint8_t)a, A->nk, (uint8_t)e};
      }
      if (A->kind == T_TAG && A->nk) out[n++] = (op_t){O_TAG_ITEM, (uint8_t)a, (uint8_t)e, 0};
      if (nl < (int)MAXI) out[n++] = (op_t){O_BUILD_TAG, (uint8_t)a, (uint8_t)e, 0};
    }
    for (int x = 0; x < K; x++) {
      if (s->slot[x] < 0) continue;
      int ix = s->slot[x];
      if (reaches(s, ix, ia)) continue; /* containers stay acyclic (rule) */
      if (arr) {
        int room = A->kind == T_DARR ? A->cap : 99;
        if (A->nk < (int)MAXC && A->nk < room) {
          out[n++] = (op_t){O_PUSH, (uint8_t)a, (uint8_t)x, 0};
          if (x != a) out[n++] = (op_t){O_MOVE_PUSH, (uint8_t)a, (uint8_t)x, 0};
          out[n++] = (op_t){O_SET, (uint8_t)a, A->nk, (uint8_t)x};
        } else if (A->kind == T_DARR && A->nk >= room)
          out[n++] = (op_t){O_PUSH_FULL, (uint8_t)a, (uint8_t)x, 0};
        for (int i = 0; i < A->nk; i++) {
          out[n++] = (op_t){O_REPLACE, (uint8_t)a, (uint8_t)i, (uint8_t)x};
          out[n++] = (op_t){O_SET, (uint8_t)a, (uint8_t)i, (uint8_t)x};
        }
        out[n++] = (op_t){O_SET_OOB, (uint8_t)a, (uint8_t)(A->nk + 1), (uint8_t)x};
        out[n++] = (op_t){O_REPLACE_OOB, (uint8_t)a, A->nk, (uint8_t)x};
      }
      if (A->kind == T_IBS && s->it[ix].kind == T_BSTR && A->nk < (int)MAXC) out[n++] = (op_t){O_ADD_CHUNK, (uint8_t)a, (uint8_t)x, 0};
      if (A->kind == T_ITS && s->it[ix].kind == T_TSTR && A->nk < (int)MAXC) out[n++] = (op_t){O_ADD_CHUNK, (uint8_t)a, (uint8_t)x, 0};
      if (A->kind == T_TAG && !A->nk) out[n++] = (op_t){O_TAG_SET, (uint8_t)a, (uint8_t)x, 0};
      if (A->kind == T_TAG && A->nk && e >= 0) out[n++] = (op_t){O_TAG_SET_OCC, (uint8_t)a, (uint8_t)x, (uint8_t)e};
      if (map)
        for (int y = 0; y < K; y++) {
          if (s->slot[y] < 0) continue;
          if (reaches(s, s->slot[y], ia)) continue;
          int room = A->kind == T_DMAP ? A->cap : 99;
          if (entries(A) < (int)MAXC && entries(A) < room) {
            out[n++] = (op_t){O_MAP_ADD, (uint8_t)a, (uint8_t)x, (uint8_t)y};
            if (x != a && x != y) out[n++] = (op_t){O_MOVE_MAP_ADD, (uint8_t)a, (uint8_t)x, (uint8_t)y};
          } else if (A->kind == T_DMAP && entries(A) >= room)
            out[n++] = (op_t){O_MAP_ADD_FULL, (uint8_t)a, (uint8_t)x, (uint8_t)y};
        }
    }
  }
  return n;
}

/* apply one op to the shadow and to the real objects */
static void apply(shadow* s, op_t o) {
  int ia = o.op == O_MK ? -1 : s->slot[o.a];
  switch (o.op) {
    case O_MK: {
      int id = new_item(s, o.a, o.a == T_DARR ? 2 : o.a == T_DMAP ? 1 : 0);
      real[id] = mk_real(o.a);
      if (!real[id]) FAIL("constructor of %s returned NULL", TNAME[o.a]);
      s->slot[o.b] = (int8_t)id;
      break;
    }
    case O_DECREF: { cbor_item_t* p = real[ia]; cbor_decref(&p); s->slot[o.a] = -1; break; }
    case O_IDECREF: cbor_intermediate_decref(real[ia]); s->slot[o.a] = -1; break;
    case O_INCREF: if (cbor_incref(real[ia]) != real[ia]) FAIL("cbor_incref returned a different pointer"); s->slot[o.b] = (int8_t)ia; break;
    case O_SER: {
      size_t sz = cbor_serialized_size(real[ia]);
      unsigned char buf[512];
      size_t w = cbor_serialize(real[ia], buf, sizeof buf);
      if (w != sz || sz == 0) FAIL("serialize wrote %zu, size %zu", w, sz);
      break;
    }
    case O_DESCRIBE: { /* the pretty printer hands out no reference and takes none: the oracle after this transition sees any count it touched */
      static FILE* nullf;
      if (!nullf) nullf = fopen("/dev/null", "w");
      cbor_describe(real[ia], nullf);
      break;
    }
    case O_LOAD_REJ: {
      /* failed decodes hand out no reference: whatever the decoder built on the way must be gone when it returns (the state is unchanged, so the
       * audit after this transition sees any block left behind). Variants of the item's own encoding e: every proper prefix; e inside an
       * indefinite map as a key with no value; e followed by a reserved byte inside an array; e as a "chunk" of both chunked string kinds; e
       * with a break where none is allowed; e as the content of a tag followed by a break inside a definite array */
      unsigned char e[512], v[520];
      size_t w = cbor_serialize(real[ia], e, sizeof e);
      if (!w) { FAIL("serialize returned 0"); break; }
      struct cbor_load_result res;
      uint64_t live0 = va.live;
      for (size_t cut = 0; cut < w; cut++) {
        cbor_item_t* p = cbor_load(e, cut, &res);
        vf_cnt(VC_USER + 28, 1);
        if (p) { FAIL("load of a proper prefix (%zu of %zu bytes) of the serialization returned an item", cut, w); cbor_decref(&p); }
      }
      static const struct { unsigned char pre[2]; unsigned npre; unsigned char post[2]; unsigned npost; } W[] = {
          {{0xbf}, 1, {0xff}, 1}, {{0x9f}, 1, {0x1c}, 1}, {{0x5f}, 1, {0xff}, 1}, {{0x7f}, 1, {0xff}, 1}, {{0x82}, 1, {0xff}, 1}, {{0x82, 0xc1}, 2, {0xff}, 1},
          {{0xa1}, 1, {0xff}, 1}, {{0xbf, 0x00}, 2, {0x1c}, 1}, {{0xd8, 0x18}, 2, {0xff}, 1}};
      for (unsigned i = 0; i < sizeof W / sizeof W[0]; i++) {
        size_t n = 0;
        memcpy(v, W[i].pre, W[i].npre); n += W[i].npre;
        memcpy(v + n, e, w); n += w;
        memcpy(v + n, W[i].post, W[i].npost); n += W[i].npost;
        cbor_item_t* p = cbor_load(v, n, &res);
        vf_cnt(VC_USER + 28, 1);
        if (p) cbor_decref(&p); /* a few of these are acceptable for some items (a definite string inside a chunked string of its kind): then it is a plain load + release */
        if (va.live != live0) { FAIL("a rejected (or loaded and released) variant %u of the serialization left %" PRId64 " blocks allocated", i, (int64_t)(va.live - live0)); break; }
      }
      if (va.live != live0) FAIL("failed loads left %" PRId64 " blocks allocated", (int64_t)(va.live - live0));
      break;
    }
    case O_COPY:
    case O_LOADBACK: {
      cbor_item_t* p;
      if (o.op == O_COPY) p = cbor_copy(real[ia]);
      else {
        unsigned char buf[512];
        size_t w = cbor_serialize(real[ia], buf, sizeof buf);
        struct cbor_load_result res;
        p = cbor_load(buf, w, &res);
        if (p && res.read != w) FAIL("load of the serialization read %zu of %zu", res.read, w);
      }
      if (!p) { FAIL("%s returned NULL", ONAME[o.op]); break; }
      shadow src = *s;
      int id = adopt(s, &src, ia, p, ONAME[o.op]);
      s->slot[o.b] = (int8_t)id;
      break;
    }
    case O_GET: {
      cbor_item_t* p = cbor_array_get(real[ia], o.b);
      int c = s->it[ia].kid[o.b];
      if (p != real[c]) FAIL("array_get(%d) returned the wrong item", o.b);
      s->slot[o.c] = (int8_t)c;
      break;
    }
    case O_GET_OOB: {
      cbor_item_t* p = cbor_array_get(real[ia], o.b);
      if (p != NULL) FAIL("array_get(%d) on an array of %d returned an item", o.b, s->it[ia].nk);
      break;
    }
    case O_TAG_ITEM: {
      cbor_item_t* p = cbor_tag_item(real[ia]);
      int c = s->it[ia].kid[0];
      if (p != real[c]) FAIL("tag_item returned the wrong item");
      s->slot[o.b] = (int8_t)c;
      break;
    }
    case O_BUILD_TAG: {
      cbor_item_t* p = cbor_build_tag(5, real[ia]);
      if (!p) { FAIL("build_tag returned NULL"); break; }
      int id = new_item(s, T_TAG, 0);
      real[id] = p;
      s->it[id].kid[0] = (int8_t)ia;
      s->it[id].nk = 1;
      s->slot[o.b] = (int8_t)id;
      break;
    }
    case O_PUSH: case O_MOVE_PUSH: case O_PUSH_FULL: {
      int ix = s->slot[o.b];
      bool ok = cbor_array_push(real[ia], o.op == O_MOVE_PUSH ? cbor_move(real[ix]) : real[ix]);
      if (ok != (o.op != O_PUSH_FULL)) FAIL("%s returned %d", ONAME[o.op], ok);
      if (o.op != O_PUSH_FULL) s->it[ia].kid[s->it[ia].nk++] = (int8_t)ix;
      if (o.op == O_MOVE_PUSH) s->slot[o.b] = -1; /* the client's reference went into the container */
      break;
    }
    case O_SET: case O_SET_OOB: {
      int ix = s->slot[o.c];
      bool ok = cbor_array_set(real[ia], o.b, real[ix]);
      if (ok != (o.op == O_SET)) FAIL("%s(%d) returned %d", ONAME[o.op], o.b, ok);
      if (o.op == O_SET) { if (o.b == s->it[ia].nk) s->it[ia].nk++; s->it[ia].kid[o.b] = (int8_t)ix; }
      break;
    }
    case O_REPLACE: case O_REPLACE_OOB: {
      int ix = s->slot[o.c];
      bool ok = cbor_array_replace(real[ia], o.b, real[ix]);
      if (ok != (o.op == O_REPLACE)) FAIL("%s(%d) returned %d", ONAME[o.op], o.b, ok);
      if (o.op == O_REPLACE) s->it[ia].kid[o.b] = (int8_t)ix;
      break;
    }
    case O_ADD_CHUNK: {
      int ix = s->slot[o.b];
      if (!(s->it[ia].kind == T_ITS ? cbor_string_add_chunk(real[ia], real[ix]) : cbor_bytestring_add_chunk(real[ia], real[ix]))) FAIL("add_chunk returned false");
      s->it[ia].kid[s->it[ia].nk++] = (int8_t)ix;
      break;
    }
    case O_TAG_SET: {
      int ix = s->slot[o.b];
      cbor_tag_set_item(real[ia], real[ix]);
      s->it[ia].kid[0] = (int8_t)ix;
      s->it[ia].nk = 1;
      break;
    }
    case O_TAG_SET_OCC: { /* documented: the previous item is not released; that reference becomes the client's */
      int ix = s->slot[o.b], old = s->it[ia].kid[0];
      cbor_tag_set_item(real[ia], real[ix]);
      s->it[ia].kid[0] = (int8_t)ix;
      s->slot[o.c] = (int8_t)old;
      break;
    }
    case O_MAP_ADD: case O_MAP_ADD_FULL: case O_MOVE_MAP_ADD: {
      int ix = s->slot[o.b], iy = s->slot[o.c];
      bool ok = cbor_map_add(real[ia], (struct cbor_pair){.key = o.op == O_MOVE_MAP_ADD ? cbor_move(real[ix]) : real[ix], .value = real[iy]});
      if (ok != (o.op != O_MAP_ADD_FULL)) FAIL("%s returned %d", ONAME[o.op], ok);
      if (o.op != O_MAP_ADD_FULL) { s->it[ia].kid[s->it[ia].nk++] = (int8_t)ix; s->it[ia].kid[s->it[ia].nk++] = (int8_t)iy; }
      if (o.op == O_MOVE_MAP_ADD) s->slot[o.b] = -1;
      break;
    }
    default: FAIL("unknown op %d", o.op);
  }
  gc(s);
}
/* the oracle evaluated in every state */
static void check_state(const shadow* s) {
  for (int i = 0; i < s->nit; i++) {
    if (!s->it[i].live) continue;
    size_t exp = 0;
    for (int k = 0; k < K; k++) exp += s->slot[k] == i;
    for (int j = 0; j < s->nit; j++)
      if (s->it[j].live)
        for (int k = 0; k < s->it[j].nk; k++) exp += s->it[j].kid[k] == i;
    size_t got = cbor_refcount(real[i]);
    if (got != exp) { FAIL("refcount of %s#%d is %zu; the ownership rules say %zu references exist", TNAME[s->it[i].kind], i, got, exp); return; }
    if (kind_of_real(real[i]) != s->it[i].kind) { FAIL("item %d changed kind", i); return; }
    size_t n = real_nkids(real[i]);
    if (n != s->it[i].nk) { FAIL("%s#%d has %zu children, model %d", TNAME[s->it[i].kind], i, n, s->it[i].nk); return; }
    for (int k = 0; k < s->it[i].nk; k++)
      if (real_kid(real[i], (size_t)k) != real[s->it[i].kid[k]]) { FAIL("child %d of %s#%d is not the item the model holds", k, TNAME[s->it[i].kind], i); return; }
    if (s->it[i].kind == T_DARR && cbor_array_allocated(real[i]) != s->it[i].cap) { FAIL("definite array capacity %zu, model %d", cbor_array_allocated(real[i]), s->it[i].cap); return; }
    if (s->it[i].kind == T_DMAP && cbor_map_allocated(real[i]) != s->it[i].cap) { FAIL("definite map capacity %zu, model %d", cbor_map_allocated(real[i]), s->it[i].cap); return; }
  }
  if (va.errors) FAIL("allocator protocol violated: %s", va.last_error);
}
/* drop every client reference: nothing obtained through the allocator may remain */
static void teardown(shadow* s) {
  for (int k = 0; k < K; k++)
    if (s->slot[k] >= 0) { cbor_item_t* p = real[s->slot[k]]; cbor_decref(&p); s->slot[k] = -1; gc(s); }
  if (va.live != 0) FAIL("%" PRIu64 " blocks (%" PRIu64 " bytes) still allocated after the client dropped all of its references", va.live, va.live_bytes);
  if (va.errors) FAIL("allocator protocol violated during teardown: %s", va.last_error);
}

/* ---- allocator configurations (C13) */
#if PROP == 13
static unsigned trap_hits;
static char trap_what[160];
#define TRAP(name) do { trap_hits++; snprintf(trap_what, sizeof trap_what, "library code called libc %s directly, bypassing the installed allocator", name); FAIL("%s", trap_what); } while (0)
void* vf_trap_malloc(size_t n) { (void)n; TRAP("malloc"); return NULL; }
void* vf_trap_calloc(size_t a, size_t b) { (void)a; (void)b; TRAP("calloc"); return NULL; }
void* vf_trap_realloc(void* p, size_t n) { (void)p; (void)n; TRAP("realloc"); return NULL; }
void vf_trap_free(void* p) { (void)p; TRAP("free"); }
char* vf_trap_strdup(const char* s) { (void)s; TRAP("strdup"); return NULL; }
void* vf_trap_aligned_alloc(size_t a, size_t n) { (void)a; (void)n; TRAP("aligned_alloc"); return NULL; }
int vf_trap_posix_memalign(void** p, size_t a, size_t n) { (void)p; (void)a; (void)n; TRAP("posix_memalign"); return 12; }
/* arena allocator without any libc backing */
static unsigned char* arena;
static size_t arena_off, arena_live;
#define ARENA_SZ (1u << 20)
static int64_t ar_fail_at = -1; /* refuse the request with this index (counted from alloc_begin) */
static void* ar_malloc(size_t n) {
  va.requests++;
  if ((int64_t)va.requests - 1 == ar_fail_at) return NULL;
  size_t need = (n + 16 + 15) & ~(size_t)15;
  if (arena_off + need > ARENA_SZ) return NULL;
  uint64_t* h = (uint64_t*)(arena + arena_off);
  h[0] = VA_LIVE_MAGIC;
  h[1] = n;
  arena_off += need;
  arena_live++;
  va.live = arena_live;
  return h + 2;
}
static void ar_free(void* p) {
  if (!p) return;
  if ((unsigned char*)p < arena || (unsigned char*)p >= arena + ARENA_SZ) { va.errors++; snprintf(va.last_error, sizeof va.last_error, "free of %p which is outside the arena", p); return; }
  uint64_t* h = (uint64_t*)p - 2;
  if (h[0] != VA_LIVE_MAGIC) { va.errors++; snprintf(va.last_error, sizeof va.last_error, "free of a block that is not live (%p)", p); return; }
  h[0] = VA_DEAD_MAGIC;
  memset(p, 0xDD, h[1]);
  arena_live--;
  va.live = arena_live;
}
static void* ar_realloc(void* p, size_t n) {
  if (p && ((unsigned char*)p < arena || (unsigned char*)p >= arena + ARENA_SZ)) { va.errors++; snprintf(va.last_error, sizeof va.last_error, "realloc of %p which is outside the arena", p); return NULL; }
  if (p && ((uint64_t*)p)[-2] != VA_LIVE_MAGIC) { va.errors++; snprintf(va.last_error, sizeof va.last_error, "realloc of a block that is not live"); return NULL; }
  void* q = ar_malloc(n);
  if (q && p) { size_t old = ((uint64_t*)p)[-1]; memcpy(q, p, old < n ? old : n); ar_free(p); }
  return q;
}
static int alloc_config; /* 0 tagging (+ trapped libc), 1 arena */
static bool in_arena(const void* p) { return (const unsigned char*)p >= arena && (const unsigned char*)p < arena + ARENA_SZ; }
#endif
static void alloc_begin(void) {
#if PROP == 13
  if (alloc_config == 1) {
    arena_off = 0;
    arena_live = 0;
    memset(&va, 0, sizeof va);
    cbor_set_allocs(ar_malloc, ar_realloc, ar_free);
    return;
  }
#endif
  va_install();
  va_reset();
}

/* ---- shared BFS state */
struct bfs {
  volatile uint64_t level, frontier_n, next_n, claim, arrived, states, transitions, abort_, maxdepth_hit;
  volatile uint64_t nfail;
  uint64_t vis_mask, fcap;
};
static struct bfs* B;
static volatile uint64_t* visited;
static hist_t *front, *next_;
static unsigned nparts;
static unsigned depth_cap;

static bool visit_insert(uint64_t h) {
  if (h == 0) h = 1;
  uint64_t i = (h * 0x9E3779B97F4A7C15ull) & B->vis_mask;
  for (;;) {
    uint64_t cur = visited[i];
    if (cur == h) return false;
    if (cur == 0) {
      if (__sync_bool_compare_and_swap(&visited[i], 0, h)) return true;
      continue;
    }
    i = (i + 1) & B->vis_mask;
  }
}
static void barrier(unsigned phase_inc) {
  (void)phase_inc;
  uint64_t lvl = B->level;
  uint64_t n = __sync_add_and_fetch(&B->arrived, 1);
  if (n == nparts) {
    /* last one in: swap frontiers and open the next level */
    hist_t* t = front; (void)t;
    B->frontier_n = B->next_n;
    B->next_n = 0;
    B->claim = 0;
    B->arrived = 0;
    __sync_synchronize();
    B->level = lvl + 1;
  } else {
    while (B->level == lvl && !B->abort_ && !vf_peer_crashed()) {
      usleep(200);
      vf_case("barrier", "", 0); /* heartbeat */
    }
  }
}
static void replay_hist(const hist_t* h, shadow* s) {
  memset(s, 0, sizeof *s);
  for (int k = 0; k < K; k++) s->slot[k] = -1;
  memset(real, 0, sizeof real);
  exec_status = EX_OK;
#if PROP == 13
  trap_hits = 0;
#endif
  alloc_begin();
  for (unsigned j = 0; j < h->n; j++) apply(s, h->h[j]);
}
static void publish(const hist_t* h, const op_t* extra) {
  uint8_t d[8 + 4 * (MAXH + 1)];
  unsigned n = h->n;
  d[0] = (uint8_t)(n + (extra ? 1 : 0));
#if PROP == 13
  d[1] = (uint8_t)alloc_config;
#else
  d[1] = 0;
#endif
  d[2] = (uint8_t)MAXI; d[3] = (uint8_t)MAXC;
  memcpy(d + 4, h->h, 4 * n);
  if (extra) memcpy(d + 4 + 4 * n, extra, 4);
  vf_case("history", d, 4 + 4 * (n + (extra ? 1u : 0u)));
}
static void render_hist(const hist_t* h, const op_t* extra, char* out, size_t cap) {
  size_t o = 0;
  for (unsigned j = 0; j < h->n + (extra ? 1u : 0u) && o + 64 < cap; j++) {
    op_t p = j < h->n ? h->h[j] : *extra;
    o += (size_t)snprintf(out + o, cap - o, "%s%s(%d,%d,%d)", j ? "; " : "", ONAME[p.op], p.a, p.b, p.c);
  }
}
#if PROP == 13
static void check_arena_addresses(const shadow* s) {
  if (alloc_config != 1) return;
  for (int i = 0; i < s->nit; i++)
    if (s->it[i].live && !in_arena(real[i])) FAIL("item %d lives at %p, outside the installed arena", i, (void*)real[i]);
}
#endif

static void participant(unsigned me) {
  (void)me;
  for (;;) {
    uint64_t fn = B->frontier_n;
    hist_t* F = (B->level & 1) ? next_ : front;
    hist_t* N = (B->level & 1) ? front : next_;
    if (fn == 0 || B->abort_ || vf_peer_crashed()) break;
    if (B->level >= depth_cap) { B->maxdepth_hit = 1; break; }
    for (;;) {
      uint64_t idx = __sync_fetch_and_add(&B->claim, 1);
      if (idx >= fn) break;
      hist_t h = F[idx];
      shadow s0;
      replay_hist(&h, &s0);
      op_t ops[512];
      int nops = enum_ops(&s0, ops);
      teardown(&s0);
      if (exec_status != EX_OK) { publish(&h, NULL); vf_fail(NULL, "%s", failmsg); }
      for (int k = 0; k < nops; k++) {
        publish(&h, &ops[k]);
        shadow s;
        replay_hist(&h, &s);
        apply(&s, ops[k]);
        if (exec_status == EX_OK) check_state(&s);
#if PROP == 13
        if (exec_status == EX_OK) check_arena_addresses(&s);
        if (trap_hits) { FAIL("%s", trap_what); }
#endif
        char cs[1024];
        uint64_t ch = canon(&s, cs);
        shadow keep = s;
        if (exec_status == EX_OK) teardown(&s);
        vf_cnt(VC_EVAL, 1);
        vf_cnt(VC_TRANS, 1);
        vf_cnt(VC_TRACES, 1);
        vf_cnt(VC_USER + ops[k].op, 1);
        if (exec_status != EX_OK) {
          char hs[1500];
          render_hist(&h, &ops[k], hs, sizeof hs);
          vf_fail(ops[k].op == O_GET_OOB ? "array-get-out-of-range" : NULL, "%s  [history: %s]", failmsg, hs);
          continue;
        }
        (void)keep;
        if (visit_insert(ch)) {
          vf_cnt(VC_DISTINCT, 1);
          if (h.n + 1 < MAXH) {
            uint64_t pos = __sync_fetch_and_add(&B->next_n, 1);
            if (pos < B->fcap) {
              N[pos] = h;
              N[pos].h[N[pos].n++] = ops[k];
            } else
              vf_not_exhaustive("frontier capacity reached");
          } else
            vf_not_exhaustive("history length cap reached");
          if ((vf_cnt_get_local(VC_DISTINCT) & 0x3fff) == 1) {
            char hs[600];
            render_hist(&h, &ops[k], hs, sizeof hs);
            vf_sample("history [%s] reaches state %s", hs, cs);
          }
        }
      }
    }
    barrier(1);
  }
}
static unsigned configs = 1;
#if PROP == 13
enum { K13_PIPE = VC_USER + 30, K13_NOALLOC_TREES, K13_NOALLOC_CALLS, K13_BLOCKS_IN_ARENA, K13_FAULT_RUNS };
static FILE* devnull;
static void pipe_input(const uint8_t* b, size_t n) {
  vf_case("pipeline", b, n);
  exec_status = EX_OK;
  trap_hits = 0;
  alloc_begin();
  struct cbor_load_result res;
  cbor_item_t* it = cbor_load(b, n, &res);
  vf_cnt(VC_EVAL, 1);
  vf_cnt(VC_TRACES, 1);
  if (it) {
    vf_cnt(K13_PIPE, 1);
    cbor_describe(it, devnull);
    unsigned char out[512];
    (void)cbor_serialize(it, out, sizeof out);
    unsigned char* ab = NULL;
    size_t absz = 0;
    if (cbor_serialize_alloc(it, &ab, &absz)) {
      if (alloc_config == 1 && !in_arena(ab)) vf_fail(NULL, "cbor_serialize_alloc buffer %p is outside the installed arena", (void*)ab);
      _cbor_free(ab); /* the documented way for a client with a custom allocator to release it */
    }
    cbor_item_t* c = cbor_copy(it);
    if (alloc_config == 1) {
      ref_arena_reset();
      static const void* BL[4096];
      size_t nb = vf_collect_blocks(vf_walk(it), BL, 4096);
      if (c) nb += vf_collect_blocks(vf_walk(c), BL + nb, 4096 - nb);
      for (size_t i = 0; i < nb; i++)
        if (BL[i] && !in_arena(BL[i])) { vf_fail(NULL, "block %p of a decoded/copied tree lies outside the installed arena", BL[i]); break; }
      vf_cnt(K13_BLOCKS_IN_ARENA, nb);
    }
    if (c) cbor_decref(&c);
    cbor_decref(&it);
  }
  if (va.live) vf_fail(NULL, "%" PRIu64 " blocks not handed back to the installed free", va.live);
  if (va.errors) vf_fail(NULL, "allocator protocol violated: %s", va.last_error);
  if (trap_hits) vf_fail("libc-bypass", "%s", trap_what);
  /* the same discipline on the library's failure paths: load + copy + release with each single request refused in turn (small inputs) */
  if (n <= 48 && exec_status == EX_OK) {
    alloc_begin();
    cbor_item_t* t0 = cbor_load(b, n, &res);
    cbor_item_t* c0 = t0 ? cbor_copy(t0) : NULL;
    uint64_t total = va.requests; /* requests of the unrefused run */
    if (c0) cbor_decref(&c0);
    if (t0) cbor_decref(&t0);
    for (uint64_t k = 0; k < total && k < 64; k++) {
      alloc_begin();
      if (alloc_config == 1) ar_fail_at = (int64_t)k; else va_schedule(VA_FAIL_ONE, k, 0);
      cbor_item_t* t = cbor_load(b, n, &res);
      cbor_item_t* c = t ? cbor_copy(t) : NULL;
      if (c) cbor_decref(&c);
      if (t) cbor_decref(&t);
      ar_fail_at = -1;
      if (alloc_config != 1) va_schedule(VA_NOFAULT, 0, 0);
      vf_cnt(K13_FAULT_RUNS, 1);
      if (va.live) { vf_fail(NULL, "with request %" PRIu64 " refused, %" PRIu64 " blocks were not handed back to the installed free", k, va.live); if (alloc_config != 1) va_release_all(); break; }
      if (va.errors) { vf_fail(NULL, "with request %" PRIu64 " refused, the allocator protocol was violated: %s", k, va.last_error); break; }
      if (trap_hits) { vf_fail("libc-bypass", "with request %" PRIu64 " refused: %s", k, trap_what); break; }
    }
  }
}
static void pipe_seq_cb(const vf_seq* s, void* ctx) {
  (void)ctx;
  uint8_t buf[12 * 16];
  memcpy(buf, s->bytes, s->n);
  pipe_input(buf, s->n);
}
/* 'requests no memory at all': streaming decoder, encoders, fixed-buffer serialization, size computation */
static void noalloc_input(const uint8_t* buf, size_t n, bool try_load);
static void noalloc_seq_cb(const vf_seq* s, void* ctx) {
  (void)ctx;
  uint8_t buf[12 * 16];
  memcpy(buf, s->bytes, s->n);
  noalloc_input(buf, s->n, s->status == VD_ACCEPT);
}
static void noalloc_input(const uint8_t* buf, size_t n, bool try_load) {
  vf_case("noalloc", buf, n);
  alloc_begin();
  trap_hits = 0;
  struct cbor_load_result res;
  cbor_item_t* it = try_load ? cbor_load(buf, n, &res) : NULL;
  uint64_t r0 = va.requests, f0 = va.frees;
  vf_rec rec;
  size_t off = 0;
  while (off < n) {
    vf_rec_reset(&rec);
    struct cbor_decoder_result r = cbor_stream_decode(buf + off, n - off, &vf_rec_callbacks, &rec);
    vf_cnt(K13_NOALLOC_CALLS, 1);
    if (r.status != CBOR_DECODER_FINISHED || r.read == 0) break;
    off += r.read;
  }
  if (it) {
    vf_cnt(K13_NOALLOC_TREES, 1);
    static unsigned char out[1 << 17];
    size_t sz = cbor_serialized_size(it);
    (void)cbor_serialize(it, out, sizeof out);
    (void)cbor_serialize(it, out, sz && sz <= sizeof out ? sz - 1 : 0);
    vf_cnt(K13_NOALLOC_CALLS, 3);
  }
  if (va.requests != r0 || va.frees != f0 || trap_hits)
    vf_fail(NULL, "stream decoding / size computation / fixed-buffer serialization made %" PRIu64 " allocator requests and %" PRIu64 " releases (%u direct libc calls)", va.requests - r0, va.frees - f0, trap_hits);
  if (it) cbor_decref(&it);
  vf_cnt(VC_EVAL, 1);
  vf_cnt(VC_TRACES, 1);
}
static void noalloc_encoders(void) {
  vf_case("noalloc-enc", "", 0);
  alloc_begin();
  trap_hits = 0;
  unsigned char o[16];
  uint64_t r0 = va.requests, f0 = va.frees;
  for (unsigned i = 0; i < VF_NS64; i++) {
    uint64_t v = VF_S64[i];
    size_t t = 0;
    t += cbor_encode_uint8((uint8_t)v, o, 16) + cbor_encode_uint16((uint16_t)v, o, 16) + cbor_encode_uint32((uint32_t)v, o, 16) + cbor_encode_uint64(v, o, 16) + cbor_encode_uint(v, o, 16);
    t += cbor_encode_negint8((uint8_t)v, o, 16) + cbor_encode_negint16((uint16_t)v, o, 16) + cbor_encode_negint32((uint32_t)v, o, 16) + cbor_encode_negint64(v, o, 16) + cbor_encode_negint(v, o, 16);
    t += cbor_encode_bytestring_start(v, o, 16) + cbor_encode_string_start(v, o, 16) + cbor_encode_array_start(v, o, 16) + cbor_encode_map_start(v, o, 16) + cbor_encode_tag(v, o, 16);
    t += cbor_encode_indef_bytestring_start(o, 16) + cbor_encode_indef_string_start(o, 16) + cbor_encode_indef_array_start(o, 16) + cbor_encode_indef_map_start(o, 16);
    t += cbor_encode_bool(v & 1, o, 16) + cbor_encode_null(o, 16) + cbor_encode_undef(o, 16) + cbor_encode_break(o, 16) + cbor_encode_ctrl((uint8_t)v, o, 16);
    float f;
    uint32_t u32 = (uint32_t)v;
    memcpy(&f, &u32, 4);
    double d;
    memcpy(&d, &v, 8);
    t += cbor_encode_half(f, o, 16) + cbor_encode_single(f, o, 16) + cbor_encode_double(d, o, 16);
    vf_cnt(K13_NOALLOC_CALLS, 27);
    (void)t;
  }
  vf_cnt(VC_EVAL, 1);
  if (va.requests != r0 || va.frees != f0 || trap_hits) vf_fail(NULL, "low-level encoders made %" PRIu64 " allocator requests (%u direct libc calls)", va.requests - r0, trap_hits);
}
static uint64_t dfs_units13;
#endif
static void unit(uint64_t u) {
  va_cap = 1 << 20;
  if (u < nparts) { participant((unsigned)u); return; }
#if PROP == 13
  u -= nparts;
  if (u < dfs_units13) { vf_dfs_unit(&VF_SIGMA, vf_tier ? 4 : 3, u, CBOR_MAX_STACK_SIZE, 64 * 1024, pipe_seq_cb, NULL); return; }
  u -= dfs_units13;
  if (u < dfs_units13) { vf_dfs_unit(&VF_SIGMA, vf_tier ? 4 : 3, u, CBOR_MAX_STACK_SIZE, 64 * 1024, noalloc_seq_cb, NULL); return; }
  u -= dfs_units13;
  if (u == 0) { noalloc_encoders(); return; }
  u -= 1;
  { /* boundary corpus through the pipeline (wide containers, growth steps, nesting at and beyond the limit) */
    size_t n;
    const uint8_t* b = vf_corpus_item(u, &n, NULL);
    if (alloc_config == 1 && n > 20000) return; /* the 1 MiB arena cannot hold the largest items */
    pipe_input(b, n);
    noalloc_input(b, n, true); /* deep and wide trees too: size computation and fixed-buffer serialization request nothing whatever the shape */
  }
#endif
}
static uint64_t units(void) {
#if PROP == 13
  return nparts + 2 * dfs_units13 + 1 + vf_corpus_count();
#else
  return nparts;
#endif
}
static void init(void) {
#if PROP == 13
  const char* cfg = getenv("VF_ALLOC_CONFIG");
  alloc_config = cfg ? atoi(cfg) : 0;
  arena = mmap(NULL, ARENA_SZ, PROT_READ | PROT_WRITE, MAP_PRIVATE | MAP_ANONYMOUS, -1, 0);
  vf_extra("pipelines", "every head sequence of the pushdown DFS over Sigma (<= 3 heads; thorough 4) and every boundary-corpus item: load, describe, serialize, serialize_alloc, copy, release under the "
           "configured allocator; for inputs of <= 48 bytes additionally load + copy + release with each single allocator request refused in turn (the library's failure paths obey the same discipline)");
  vf_extra("allocator_configuration", "%s", alloc_config == 1 ? "arena without libc backing (every block address must lie inside it)" : "tagging allocator; libc malloc/calloc/realloc/free/strdup references of every library object except allocators.o redirected to trap symbols");
#endif
#if PROP == 13
  vf_enum_init();
  vf_corpus_init();
  vf_sets_init();
  devnull = fopen("/dev/null", "w");
  dfs_units13 = vf_dfs_units(&VF_SIGMA);
#endif
  MAXI = vf_tier ? 4 : 3;
  MAXC = vf_tier ? 3 : 2;
  const char* e;
  if ((e = getenv("VF_E2_MAXI"))) MAXI = (unsigned)atoi(e);
  if ((e = getenv("VF_E2_MAXC"))) MAXC = (unsigned)atoi(e);
  depth_cap = vf_tier ? 9 : 40;
  if ((e = getenv("VF_E2_DEPTH"))) depth_cap = (unsigned)atoi(e);
  nparts = (unsigned)vf_nworkers_hint;
  if (nparts < 1) nparts = 1;
  B = mmap(NULL, sizeof *B, PROT_READ | PROT_WRITE, MAP_SHARED | MAP_ANONYMOUS, -1, 0);
  int bits = vf_tier ? 25 : 21;
  B->vis_mask = (1ull << bits) - 1;
  B->fcap = vf_tier ? (1ull << 23) : (1ull << 19);
  visited = mmap(NULL, 8ull << bits, PROT_READ | PROT_WRITE, MAP_SHARED | MAP_ANONYMOUS | MAP_NORESERVE, -1, 0);
  front = mmap(NULL, B->fcap * sizeof(hist_t), PROT_READ | PROT_WRITE, MAP_SHARED | MAP_ANONYMOUS | MAP_NORESERVE, -1, 0);
  next_ = mmap(NULL, B->fcap * sizeof(hist_t), PROT_READ | PROT_WRITE, MAP_SHARED | MAP_ANONYMOUS | MAP_NORESERVE, -1, 0);
  if (visited == MAP_FAILED || front == MAP_FAILED || next_ == MAP_FAILED) abort();
  /* initial state: empty history */
  shadow s;
  memset(&s, 0, sizeof s);
  for (int k = 0; k < K; k++) s.slot[k] = -1;
  char cs[64];
  visit_insert(canon(&s, cs));
  front[0].n = 0;
  B->frontier_n = 1;
  vf_extra("bounds", "K=%d slots, <= %u live items, containers <= %u entries, depth cap %u", K, MAXI, MAXC, depth_cap);
  (void)configs;
}
static void finish(void) {
  /* a depth bound is a stated bound of the exploration (every history up to that depth was explored), not an unplanned cap */
  vf_extra("bfs_levels_completed", "%" PRIu64, (uint64_t)B->level);
  vf_extra("fixpoint", "%s", B->maxdepth_hit ? "no: stopped at the stated depth bound; every history up to that depth was explored" : "yes: the last level produced no new canonical state");
}
static void replay(const char* tag, const uint8_t* d, size_t len) {
#if PROP == 13
  if (!strcmp(tag, "pipeline")) { pipe_input(d, len); return; }
  if (!strcmp(tag, "noalloc-enc")) { noalloc_encoders(); return; }
  if (!strcmp(tag, "noalloc")) { noalloc_input(d, len, true); return; } /* a rejected input is simply not loaded */
#endif
  if (len < 4) return;
  hist_t h;
  memset(&h, 0, sizeof h);
  h.n = d[0] > MAXH ? MAXH : d[0];
#if PROP == 13
  alloc_config = d[1];
#endif
  MAXI = d[2]; MAXC = d[3];
  memcpy(h.h, d + 4, 4u * h.n);
  char hs[1500];
  render_hist(&h, NULL, hs, sizeof hs);
  fprintf(stderr, "history: %s\n", hs);
  shadow s;
  replay_hist(&h, &s);
  if (exec_status == EX_OK) check_state(&s);
  if (exec_status == EX_OK) teardown(&s);
  if (exec_status != EX_OK) vf_fail(NULL, "%s", failmsg);
}
struct vf_check vf_the_check = {
#if PROP == 4
    .property = "C04",
#else
    .property = "C13",
#endif
    .level = "model_checking",
    .rule = "level-synchronous BFS over all histories of public-API calls of a rule-following client with 3 reference slots: create {int, definite byte/text string, indefinite "
            "byte / text string, definite array(2), indefinite array, definite map(1), indefinite map, tag}, decref, intermediate_decref, incref, serialize, describe, copy, load(serialize), load of rejected variants of the serialization (every proper prefix and 9 malformed wrappings; no reference is handed out, nothing may stay allocated), "
            "array get (in and out of range), push / push(cbor_move) / push on full, set / replace (in and out of range), add_chunk, tag_set_item (empty and occupied), tag_item, "
            "build_tag, map_add / map_add(cbor_move key) / map_add on full; containers stay acyclic. States are deduplicated by the canonical form of the shadow ownership graph "
            "(kinds, capacities, ordered edges, client references; minimised over slot permutations); every transition replays its history on fresh objects and executes the real call. "
            "states = canonical states, transitions = real calls judged, distinct_nontrivial = canonical states discovered",
    .bounds = {"<= 3 live items, containers <= 2 entries: to fixpoint", "<= 4 live items, containers <= 3 entries: to depth 9 (or fixpoint)"},
    .assumptions = {"shadow model follows the documented ownership rules: tag_set_item on an occupied tag does not release the old item (tags.h) - that reference passes to the client; "
                    "cbor_move only where the insertion is predicted to succeed; copies and re-loaded definite containers have capacity = size of the source",
                    "oracle in every state: cbor_refcount of every live item = client references + container edges; structure through the handle getters = model; dropping all client "
                    "references leaves no block allocated; the tagging allocator reports double release / foreign pointers; ASan makes any touch of a released block fatal",
                    "states with equal canonical form have equal futures: the form contains everything the enabled-operation function and the oracle read"},
    .counters = {[VC_EVAL] = "transitions_executed", [VC_DISTINCT] = "canonical_states", [VC_TRANS] = "transitions", [VC_TRACES] = "executed_on_implementation",
                 [VC_USER + O_MK] = "op_mk", [VC_USER + O_DECREF] = "op_decref", [VC_USER + O_IDECREF] = "op_intermediate_decref", [VC_USER + O_INCREF] = "op_incref",
                 [VC_USER + O_SER] = "op_serialize", [VC_USER + O_COPY] = "op_copy", [VC_USER + O_LOADBACK] = "op_load_of_serialization", [VC_USER + O_GET] = "op_array_get",
                 [VC_USER + O_GET_OOB] = "op_array_get_out_of_range", [VC_USER + O_TAG_ITEM] = "op_tag_item", [VC_USER + O_BUILD_TAG] = "op_build_tag", [VC_USER + O_PUSH] = "op_push",
                 [VC_USER + O_MOVE_PUSH] = "op_push_moved", [VC_USER + O_PUSH_FULL] = "op_push_on_full", [VC_USER + O_SET] = "op_set", [VC_USER + O_SET_OOB] = "op_set_out_of_range",
                 [VC_USER + O_REPLACE] = "op_replace", [VC_USER + O_REPLACE_OOB] = "op_replace_out_of_range", [VC_USER + O_ADD_CHUNK] = "op_add_chunk", [VC_USER + O_TAG_SET] = "op_tag_set_item",
                 [VC_USER + O_TAG_SET_OCC] = "op_tag_set_item_occupied", [VC_USER + O_MAP_ADD] = "op_map_add", [VC_USER + O_MAP_ADD_FULL] = "op_map_add_on_full",
                 [VC_USER + O_MOVE_MAP_ADD] = "op_map_add_moved_key", [VC_USER + O_LOAD_REJ] = "op_load_of_rejected_variants", [VC_USER + O_DESCRIBE] = "op_describe", [VC_USER + 28] = "rejected_or_wrapped_loads_executed",
#if PROP == 13
                 [K13_PIPE] = "decode_describe_serialize_copy_release_pipelines", [K13_NOALLOC_TREES] = "trees_sized_and_serialized_with_zero_requests",
                 [K13_NOALLOC_CALLS] = "calls_checked_for_zero_allocator_traffic", [K13_BLOCKS_IN_ARENA] = "block_addresses_checked_inside_arena", [K13_FAULT_RUNS] = "load_copy_release_runs_with_one_request_refused",
#endif
    },
    .init = init, .units = units, .unit = unit, .replay = replay, .finish = finish, .states_counter = VC_DISTINCT + 1};
