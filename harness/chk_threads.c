/* Explorer E5 checks.
 *   -DPROP=17  C17: independent items on different threads: no data race, same results as alone, no hidden global state
 *   -DPROP=18  C18: read-only operations never write to the items they inspect
 *                   (a) every tree x every read-only operation with the tree frozen: in the trace build any store whose
 *                       address lies in the frozen arena is a violation; with -DVF_MPROTECT (gcc -O2 / -O0 builds) the
 *                       arena is mprotect(PROT_READ) and a store is a SIGSEGV
 *                   (b) concurrent readers of one shared frozen tree under the preemption-bounded scheduler */
#define _GNU_SOURCE
#include <dlfcn.h>
#include <inttypes.h>

#include "cbor.h"
#include "vf.h"
#include "vf_enum.h"
#include "vf_rec.h"
#include "vf_ref.h"
#include "vf_sched.h"
#include "vf_trees.h"

#ifndef PROP
#error "compile with -DPROP=17 or 18"
#endif

enum { K_SCEN = VC_USER, K_POINTS, K_MAXPOINTS, K_SHARED_ADDRS, K_SHARED_WRITTEN, K_SELFTEST_EXEC, K_WATCH_CALLS, K_TREES, K_TREES_WITH_TAG, K_OPS, K_BOUND0, K_BOUND1, K_BOUND2, K_BOUND3, K_REDUCED, K_UNREDUCED, K_CAPPED, K_SWEEP, K_REFUSED_OPS, K_TREES_WITH_HISTORY, K_HANDOVER, K_REFUSED_RUNS, K_DEEP_TREES, K_TAG_SWEEP };

static uint64_t fnv(uint64_t h, const void* p, size_t n) {
  const unsigned char* b = p;
  for (size_t i = 0; i < n; i++) h = (h ^ b[i]) * 0x100000001b3ull;
  return h;
}
static const char* symname(uintptr_t pc, char* buf, size_t cap) {
  Dl_info di;
  if (pc && dladdr((void*)pc, &di) && di.dli_sname) snprintf(buf, cap, "%s+%#tx", di.dli_sname, (char*)pc - (char*)di.dli_saddr);
  else snprintf(buf, cap, "pc %#" PRIxPTR, pc);
  return buf;
}
static const char* addrname(uintptr_t a, char* buf, size_t cap) {
  Dl_info di;
  if (vs_in_shared((void*)a)) snprintf(buf, cap, "shared-arena+%#tx", (char*)a - (const char*)vs_shared_base());
  else if (dladdr((void*)a, &di) && di.dli_sname) snprintf(buf, cap, "global %s+%#tx", di.dli_sname, (char*)a - (char*)di.dli_saddr);
  else snprintf(buf, cap, "address %#" PRIxPTR, a);
  return buf;
}

/* ------------------------------------------------------------------ racy control (self-test of the explorer) */
extern volatile int vf_racy_x;
void vf_racy_body(void);
static int racy_lost, racy_race;
static void racy_thread(int t) { (void)t; vf_racy_body(); }
static void racy_setup(void) { vf_racy_x = 0; }
static bool racy_check(const struct vs_exec* e) {
  if (e->races) racy_race++;
  if (vf_racy_x != 2) racy_lost++;
  return true;
}

static uint64_t res[VS_MAXT];
static uint64_t solo[8];

#if PROP == 17
/* ------------------------------------------------------------------ C17 thread bodies (all data thread-private) */
static int body_kind[VS_MAXT];
static void* priv_copy(const void* p, size_t n) {
  void* q = vs_malloc(n);
  memcpy(q, p, n);
  return q;
}
static uint64_t describe_digest(cbor_item_t* it, uint64_t h) {
  char* txt = NULL;
  size_t tl = 0;
  FILE* f = open_memstream(&txt, &tl);
  cbor_describe(it, f);
  fclose(f);
  h = fnv(h, txt, tl);
  free(txt);
  return h;
}
static uint64_t w_decode(void) {
  static const uint8_t IN[] = {0xa2, 0x61, 'a', 0x83, 0x01, 0x38, 0x63, 0xf9, 0x3e, 0x00, 0x62, 'b', 'c', 0xc1, 0x5f, 0x42, 1, 2, 0x41, 3, 0xff};
  uint64_t h = 17;
  uint8_t* in = priv_copy(IN, sizeof IN);
  struct cbor_load_result r;
  cbor_item_t* it = cbor_load(in, sizeof IN, &r);
  if (!it) return 1;
  h = fnv(h, &r.read, sizeof r.read);
  h = describe_digest(it, h);
  size_t sz = cbor_serialized_size(it);
  unsigned char out[64];
  size_t w = cbor_serialize(it, out, sizeof out);
  h = fnv(fnv(h, &sz, sizeof sz), out, w);
  cbor_item_t* c = cbor_copy(it);
  cbor_decref(&it);
  if (c) {
    w = cbor_serialize(c, out, sizeof out);
    h = fnv(h, out, w);
    cbor_decref(&c);
  }
  return h;
}
static uint64_t w_build(void) {
  uint64_t h = 23;
  cbor_item_t* m = cbor_new_definite_map(3);
  bool ok = cbor_map_add(m, (struct cbor_pair){.key = cbor_move(cbor_build_string("k1")), .value = cbor_move(cbor_build_uint16(1000))});
  ok &= cbor_map_add(m, (struct cbor_pair){.key = cbor_move(cbor_build_string("k\xc3\xa9")), .value = cbor_move(cbor_build_float2(1.5f))});
  cbor_item_t* arr = cbor_new_indefinite_array();
  ok &= cbor_array_push(arr, cbor_move(cbor_build_uint8(1)));
  ok &= cbor_array_push(arr, cbor_move(cbor_build_bytestring((cbor_data) "xyz", 3)));
  cbor_item_t* tag = cbor_build_tag(7, arr);
  cbor_decref(&arr);
  ok &= cbor_map_add(m, (struct cbor_pair){.key = cbor_move(cbor_build_negint8(3)), .value = cbor_move(tag)});
  h = fnv(h, &ok, sizeof ok);
  unsigned char* buf = NULL;
  size_t bs = 0;
  size_t w = cbor_serialize_alloc(m, &buf, &bs);
  h = fnv(h, buf, w);
  struct cbor_load_result r;
  cbor_item_t* back = cbor_load(buf, w, &r);
  if (back) {
    unsigned char out[96];
    size_t w2 = cbor_serialize(back, out, sizeof out);
    h = fnv(h, out, w2);
    h = describe_digest(back, h);
    cbor_decref(&back);
  }
  _cbor_free(buf);
  cbor_decref(&m);
  return h;
}
static uint64_t w_stream(void) {
  static const uint8_t IN[] = {0x18, 0x2a, 0x39, 0x01, 0x00, 0x43, 1, 2, 3, 0x7f, 0x61, 'x', 0xff, 0x9f, 0xa1, 0x01, 0xf5, 0xff, 0xc2, 0xfb, 0x3f, 0xf0, 0, 0, 0, 0, 0, 0, 0xf9, 0x7e, 0x00, 0xf6, 0x1c};
  uint64_t h = 29;
  uint8_t* in = priv_copy(IN, sizeof IN);
  size_t off = 0;
  vf_rec rec;
  while (off < sizeof IN) {
    vf_rec_reset(&rec);
    struct cbor_decoder_result r = cbor_stream_decode(in + off, sizeof IN - off, &vf_rec_callbacks, &rec);
    h = fnv(h, &r.status, sizeof r.status);
    h = fnv(h, &r.read, sizeof r.read);
    if (rec.ncalls) { h = fnv(h, &rec.ev[0].slot, sizeof(int)); h = fnv(h, &rec.ev[0].val, 8); h = fnv(h, &rec.ev[0].len, 8); }
    if (r.status != CBOR_DECODER_FINISHED) break;
    off += r.read;
  }
  unsigned char o[16];
  size_t w;
#define ENC(call) w = call; h = fnv(h, o, w);
  ENC(cbor_encode_uint8(200, o, 16)) ENC(cbor_encode_uint16(2, o, 16)) ENC(cbor_encode_uint32(70000, o, 16)) ENC(cbor_encode_uint64(1ull << 40, o, 16)) ENC(cbor_encode_uint(65536, o, 16))
  ENC(cbor_encode_negint8(5, o, 16)) ENC(cbor_encode_negint16(300, o, 16)) ENC(cbor_encode_negint32(70000, o, 16)) ENC(cbor_encode_negint64(1ull << 40, o, 16)) ENC(cbor_encode_negint(24, o, 16))
  ENC(cbor_encode_bytestring_start(300, o, 16)) ENC(cbor_encode_string_start(5, o, 16)) ENC(cbor_encode_array_start(24, o, 16)) ENC(cbor_encode_map_start(2, o, 16)) ENC(cbor_encode_tag(55799, o, 16))
  ENC(cbor_encode_indef_bytestring_start(o, 16)) ENC(cbor_encode_indef_string_start(o, 16)) ENC(cbor_encode_indef_array_start(o, 16)) ENC(cbor_encode_indef_map_start(o, 16))
  ENC(cbor_encode_bool(true, o, 16)) ENC(cbor_encode_null(o, 16)) ENC(cbor_encode_undef(o, 16)) ENC(cbor_encode_break(o, 16)) ENC(cbor_encode_ctrl(255, o, 16))
  ENC(cbor_encode_half(1.5f, o, 16)) ENC(cbor_encode_single(3.25f, o, 16)) ENC(cbor_encode_double(-0.1, o, 16))
#undef ENC
  return h;
}
static uint64_t w_err(int t) {
  static const struct { uint8_t b[8]; size_t n; } BAD[] = {{{0x1c}, 1}, {{0x82, 0x01}, 2}, {{0x5f, 0x01}, 2}, {{0x9f, 0xff, 0xff}, 3}, {{0xa1, 0x01, 0xff}, 3}, {{0x7b, 0xff, 0xff, 0xff, 0xff, 0xff, 0xff, 0xff, 0xff}, 8}, {{0xc0}, 1}, {{0x9b, 0xff, 0xff, 0xff, 0xff, 0xff, 0xff, 0xff, 0xff}, 8}};
  uint64_t h = 31;
  for (unsigned i = 0; i < sizeof BAD / sizeof BAD[0]; i++) {
    uint8_t* in = priv_copy(BAD[i].b, BAD[i].n);
    struct cbor_load_result r;
    cbor_item_t* it = cbor_load(in, BAD[i].n, &r);
    h = fnv(h, &r.error.code, sizeof r.error.code);
    h = fnv(h, &r.error.position, sizeof r.error.position);
    if (it) cbor_decref(&it);
  }
  /* failed copies: the allocator of this thread refuses its k-th next request */
  static const uint8_t OK[] = {0x82, 0x21, 0xa1, 0x61, 'q', 0x5f, 0x41, 9, 0xff};
  uint8_t* in = priv_copy(OK, sizeof OK);
  struct cbor_load_result r;
  cbor_item_t* it = cbor_load(in, sizeof OK, &r);
  for (int k = 1; it && k <= 6; k++) {
    vs_fail_nth(t, k);
    cbor_item_t* c = cbor_copy(it);
    vs_fail_nth(t, 0);
    int got = c != NULL;
    h = fnv(h, &got, sizeof got);
    if (c) cbor_decref(&c);
  }
  if (it) cbor_decref(&it);
  return h;
}
static void body(int t) {
  switch (body_kind[t]) {
    case 0: res[t] = w_decode(); break;
    case 1: res[t] = w_build(); break;
    case 2: res[t] = w_stream(); break;
    default: res[t] = w_err(t);
  }
}
static const char* BODY_NAME[] = {"W_decode", "W_build", "W_stream", "W_err"};
static int cur_n;
static char scen_name[96];
static bool check17(const struct vs_exec* e) {
  char a[160], b[160];
  if (e->races) {
    vf_fail(NULL, "%s: data race on %s: thread %d (%s) and thread %d (%s) access it without ordering [%u conflicting pairs, %u preemptions]", scen_name, addrname(e->race_addr, a, sizeof a),
            e->race_t1, e->race_w1 ? "store" : "load", e->race_t2, e->race_w2 ? "store" : "load", e->races, e->preemptions);
    return false;
  }
  if (e->global_writes) {
    vf_fail(NULL, "%s: library code (%s) stores to %s: hidden mutable global state", scen_name, symname(e->global_pc, a, sizeof a), addrname(e->global_addr, b, sizeof b));
    return false;
  }
  if (e->cross_private) {
    vf_fail(NULL, "%s: a thread touched another thread's private memory", scen_name);
    return false;
  }
  for (int t = 0; t < cur_n; t++)
    if (res[t] != solo[body_kind[t]]) {
      vf_fail(NULL, "%s: thread %d (%s) obtained different results than when running alone (schedule with %u preemptions)", scen_name, t, BODY_NAME[body_kind[t]], e->preemptions);
      return false;
    }
  return true;
}
static bool check_solo(const struct vs_exec* e) {
  char a[160], b[160];
  if (e->global_writes) vf_fail(NULL, "%s alone: library code (%s) stores to %s: hidden mutable global state", BODY_NAME[body_kind[0]], symname(e->global_pc, a, sizeof a), addrname(e->global_addr, b, sizeof b));
  return true;
}
#endif

/* ------------------------------------------------------------------ C18 */
#if PROP == 18
static cbor_item_t* shared_tree;
static int reader_op[VS_MAXT];
static uint64_t getters_digest(const cbor_item_t* it, uint64_t h) {
  cbor_type ty = cbor_typeof(it);
  unsigned bits = (unsigned)cbor_isa_uint(it) | (unsigned)cbor_isa_negint(it) << 1 | (unsigned)cbor_isa_bytestring(it) << 2 | (unsigned)cbor_isa_string(it) << 3 | (unsigned)cbor_isa_array(it) << 4 |
                  (unsigned)cbor_isa_map(it) << 5 | (unsigned)cbor_isa_tag(it) << 6 | (unsigned)cbor_isa_float_ctrl(it) << 7 | (unsigned)cbor_is_int(it) << 8 | (unsigned)cbor_is_float(it) << 9 |
                  (unsigned)cbor_is_bool(it) << 10 | (unsigned)cbor_is_null(it) << 11 | (unsigned)cbor_is_undef(it) << 12;
  size_t rc = cbor_refcount(it);
  h = fnv(fnv(fnv(h, &ty, sizeof ty), &bits, sizeof bits), &rc, sizeof rc);
  switch (ty) {
    case CBOR_TYPE_UINT:
    case CBOR_TYPE_NEGINT: {
      cbor_int_width w = cbor_int_get_width(it);
      uint64_t v = cbor_get_int(it), v2 = w == CBOR_INT_8 ? cbor_get_uint8(it) : w == CBOR_INT_16 ? cbor_get_uint16(it) : w == CBOR_INT_32 ? cbor_get_uint32(it) : cbor_get_uint64(it);
      h = fnv(fnv(fnv(h, &w, sizeof w), &v, 8), &v2, 8);
      break;
    }
    case CBOR_TYPE_BYTESTRING:
      if (cbor_bytestring_is_definite(it)) {
        size_t l = cbor_bytestring_length(it);
        h = fnv(fnv(h, &l, sizeof l), cbor_bytestring_handle(it), l);
      } else {
        size_t n = cbor_bytestring_chunk_count(it);
        bool ind = cbor_bytestring_is_indefinite(it);
        h = fnv(fnv(h, &n, sizeof n), &ind, 1);
        for (size_t i = 0; i < n; i++) h = getters_digest(cbor_bytestring_chunks_handle(it)[i], h);
      }
      break;
    case CBOR_TYPE_STRING:
      if (cbor_string_is_definite(it)) {
        size_t l = cbor_string_length(it), cp = cbor_string_codepoint_count(it);
        h = fnv(fnv(fnv(h, &l, sizeof l), &cp, sizeof cp), cbor_string_handle(it), l);
      } else {
        size_t n = cbor_string_chunk_count(it);
        bool ind = cbor_string_is_indefinite(it);
        h = fnv(fnv(h, &n, sizeof n), &ind, 1);
        for (size_t i = 0; i < n; i++) h = getters_digest(cbor_string_chunks_handle(it)[i], h);
      }
      break;
    case CBOR_TYPE_ARRAY: {
      size_t n = cbor_array_size(it), al = cbor_array_allocated(it);
      bool d = cbor_array_is_definite(it), i2 = cbor_array_is_indefinite(it);
      h = fnv(fnv(fnv(fnv(h, &n, sizeof n), &al, sizeof al), &d, 1), &i2, 1);
      for (size_t i = 0; i < n; i++) h = getters_digest(cbor_array_handle(it)[i], h);
      break;
    }
    case CBOR_TYPE_MAP: {
      size_t n = cbor_map_size(it), al = cbor_map_allocated(it);
      bool d = cbor_map_is_definite(it), i2 = cbor_map_is_indefinite(it);
      h = fnv(fnv(fnv(fnv(h, &n, sizeof n), &al, sizeof al), &d, 1), &i2, 1);
      for (size_t i = 0; i < n; i++) {
        h = getters_digest(cbor_map_handle(it)[i].key, h);
        h = getters_digest(cbor_map_handle(it)[i].value, h);
      }
      break;
    }
    case CBOR_TYPE_TAG: {
      uint64_t v = cbor_tag_value(it);
      h = fnv(h, &v, 8);
      if (it->metadata.tag_metadata.tagged_item) h = getters_digest(it->metadata.tag_metadata.tagged_item, h);
      break;
    }
    default: {
      cbor_float_width w = cbor_float_get_width(it);
      bool c = cbor_float_ctrl_is_ctrl(it);
      h = fnv(fnv(h, &w, sizeof w), &c, 1);
      if (c) {
        uint8_t cv = cbor_ctrl_value(it);
        h = fnv(h, &cv, 1);
        if (cbor_is_bool(it)) { bool b = cbor_get_bool(it); h = fnv(h, &b, 1); }
      } else {
        double d = cbor_float_get_float(it);
        if (d == d) h = fnv(h, &d, 8);
        if (w == CBOR_FLOAT_16) { float f = cbor_float_get_float2(it); if (f == f) h = fnv(h, &f, 4); }
        if (w == CBOR_FLOAT_32) { float f = cbor_float_get_float4(it); if (f == f) h = fnv(h, &f, 4); }
        if (w == CBOR_FLOAT_64) { double f = cbor_float_get_float8(it); if (f == f) h = fnv(h, &f, 8); }
      }
    }
  }
  return h;
}
enum { OP_SIZE, OP_SERIALIZE, OP_SERIALIZE_SHORT, OP_SERIALIZE_ALLOC, OP_GETTERS, OP_N };
static const char* OPNAME[] = {"cbor_serialized_size", "cbor_serialize(n = size)", "cbor_serialize(n = size - 1)", "cbor_serialize_alloc", "all predicates and getters on every node"};
static uint64_t run_op(int op, const cbor_item_t* t) {
  static unsigned char outbuf[VS_MAXT + 1][1 << 17];
  unsigned char* out = outbuf[vs_current() + 1];
  uint64_t h = 41;
  size_t sz = op <= OP_SERIALIZE_SHORT ? cbor_serialized_size(t) : 0;
  switch (op) {
    case OP_SIZE: h = fnv(h, &sz, sizeof sz); break;
    case OP_SERIALIZE: { size_t w = cbor_serialize(t, out, sz); h = fnv(fnv(h, &w, sizeof w), out, w); break; }
    case OP_SERIALIZE_SHORT: { size_t w = cbor_serialize(t, out, sz ? sz - 1 : 0); h = fnv(h, &w, sizeof w); break; }
    case OP_SERIALIZE_ALLOC: {
      unsigned char* b = NULL;
      size_t bs = 0;
      size_t w = cbor_serialize_alloc(t, &b, &bs);
      h = fnv(fnv(h, &w, sizeof w), b, w);
      if (b) _cbor_free(b);
      break;
    }
    default: h = getters_digest(t, h);
  }
  return h;
}
static bool tree_has_tag(const cbor_item_t* it) {
  switch (cbor_typeof(it)) {
    case CBOR_TYPE_TAG: return true;
    case CBOR_TYPE_ARRAY: for (size_t i = 0; i < cbor_array_size(it); i++) if (tree_has_tag(cbor_array_handle(it)[i])) return true; return false;
    case CBOR_TYPE_MAP: for (size_t i = 0; i < cbor_map_size(it); i++) if (tree_has_tag(cbor_map_handle(it)[i].key) || tree_has_tag(cbor_map_handle(it)[i].value)) return true; return false;
    default: return false;
  }
}
/* a tree is more than its contents: it has a past. Give every container of the tree the refused operations a client may have tried on it
 * (out-of-range get / set / replace; push, set-append and map_add on a full definite container) - none of them changes what the tree
 * denotes. Post-order, and the refused insertion is the LAST thing that touches a node, so whatever it left behind is still there when
 * the tree is frozen */
static void refused_history(cbor_item_t* it, cbor_item_t* x) {
  switch (cbor_typeof(it)) {
    case CBOR_TYPE_ARRAY: {
      size_t n = cbor_array_size(it), al = cbor_array_allocated(it);
      bool def = cbor_array_is_definite(it);
      for (size_t i = 0; i < n; i++) refused_history(cbor_array_handle(it)[i], x);
      if (cbor_array_get(it, n) != NULL || cbor_array_replace(it, n, x) || cbor_array_set(it, n + 1, x)) vf_fail(NULL, "out-of-range array operation accepted");
      vf_cnt(K_REFUSED_OPS, 3);
      if (def && n == al) {
        if (cbor_array_set(it, n, x) || cbor_array_push(it, x)) vf_fail(NULL, "insertion into a full definite array accepted");
        vf_cnt(K_REFUSED_OPS, 2);
      }
      break;
    }
    case CBOR_TYPE_MAP: {
      size_t n = cbor_map_size(it), al = cbor_map_allocated(it);
      bool def = cbor_map_is_definite(it);
      for (size_t i = 0; i < n; i++) {
        refused_history(cbor_map_handle(it)[i].key, x);
        refused_history(cbor_map_handle(it)[i].value, x);
      }
      if (def && n == al) {
        if (cbor_map_add(it, (struct cbor_pair){.key = x, .value = x})) vf_fail(NULL, "cbor_map_add on a full definite map accepted");
        vf_cnt(K_REFUSED_OPS, 1);
      }
      break;
    }
    case CBOR_TYPE_TAG:
      if (it->metadata.tag_metadata.tagged_item) refused_history(it->metadata.tag_metadata.tagged_item, x);
      break;
    default: break;
  }
}
/* (a): the tree was just built in the shared arena (main context); freeze it and run every read-only op */
static void frozen_ops_pass(cbor_item_t* t, const char* origin);
static void frozen_ops(cbor_item_t* t, const char* origin) {
  frozen_ops_pass(t, origin);
  /* second pass: the same tree after refused operations (only where the tree has an array or a map) */
  if (cbor_typeof(t) == CBOR_TYPE_ARRAY || cbor_typeof(t) == CBOR_TYPE_MAP || cbor_typeof(t) == CBOR_TYPE_TAG) {
    cbor_item_t* x = cbor_build_uint8(7);
    if (!x) return;
    size_t rc0 = cbor_refcount(x);
    refused_history(t, x);
    if (cbor_refcount(x) != rc0) vf_fail(NULL, "a refused insertion changed the reference count of the item offered");
    char o2[200];
    snprintf(o2, sizeof o2, "%.150s, after refused operations on its containers", origin);
    vf_cnt(K_TREES_WITH_HISTORY, 1);
    frozen_ops_pass(t, o2);
  }
}
static void frozen_ops_pass(cbor_item_t* t, const char* origin) {
  vf_cnt(K_TREES, 1);
  if (tree_has_tag(t)) vf_cnt(K_TREES_WITH_TAG, 1);
  uint64_t img = fnv(7, vs_shared_base(), vs_shared_used());
  for (int op = 0; op < OP_N; op++) {
    vf_cnt(VC_EVAL, 1);
    vf_cnt(VC_TRACES, 1);
    vf_cnt(K_OPS, 1);
#ifdef VF_MPROTECT
    vs_freeze_shared(true);
    (void)run_op(op, t); /* a store into the tree is a SIGSEGV here, attributed to this case by the runner */
    vs_unfreeze();
#else
    vs_freeze_shared(false);
    vs_watch_begin();
    (void)run_op(op, t);
    struct vs_exec e = vs_watch_end();
    vs_unfreeze();
    if (e.frozen_stores) {
      char a[160];
      const char* sym = symname(e.frozen_pc, a, sizeof a);
      /* the signature of the (repaired) tag finding is reserved for stores made by the reference-count functions while a tag is being read */
      vf_fail(tree_has_tag(t) && strstr(sym, "ref") ? "readonly-op-writes-tag-child-refcount" : NULL, "%s stores into the item it inspects (%u stores, first at offset %#tx of the frozen arena, from %s) [%s]", OPNAME[op],
              e.frozen_stores, (char*)e.frozen_addr - (const char*)vs_shared_base(), sym, origin);
    }
#endif
    if (fnv(7, vs_shared_base(), vs_shared_used()) != img) vf_fail(NULL, "%s left the inspected tree modified [%s]", OPNAME[op], origin);
  }
  /* the same operations with every allocator request they make refused: cbor_serialize_alloc then fails, and so does anything else that
   * (against C13) asks for memory - a failing read-only operation must still not store into the tree */
  for (int op = 0; op < OP_N; op++) {
    uint64_t before = vs_requests_while_frozen();
    if (op != OP_SERIALIZE_ALLOC) {
      /* probe: does it request memory at all? (only then is there a failure path to look at) */
      vs_freeze_shared(false);
      (void)run_op(op, t);
      vs_unfreeze();
      if (vs_requests_while_frozen() == before) continue;
    }
    vf_cnt(K_OPS, 1);
    vf_cnt(K_REFUSED_RUNS, 1);
    vs_refuse_while_frozen(true);
#ifdef VF_MPROTECT
    vs_freeze_shared(true);
    (void)run_op(op, t);
    vs_unfreeze();
#else
    vs_freeze_shared(false);
    vs_watch_begin();
    (void)run_op(op, t);
    struct vs_exec e = vs_watch_end();
    vs_unfreeze();
    if (e.frozen_stores) {
      char a[160];
      vf_fail(NULL, "%s with its allocator requests refused stores into the item it inspects (%u stores, first at offset %#tx of the frozen arena, from %s) [%s]", OPNAME[op], e.frozen_stores,
              (char*)e.frozen_addr - (const char*)vs_shared_base(), symname(e.frozen_pc, a, sizeof a), origin);
    }
#endif
    vs_refuse_while_frozen(false);
    if (fnv(7, vs_shared_base(), vs_shared_used()) != img) vf_fail(NULL, "%s with its allocator requests refused left the inspected tree modified [%s]", OPNAME[op], origin);
  }
}
/* (b) concurrent readers */
static const uint8_t* cur_tree_bytes;
static size_t cur_tree_len;
static uint64_t frozen_img;
static char scen_name[160];
static int cur_n;
static void setup18(void) {
  struct cbor_load_result r;
  shared_tree = cbor_load(cur_tree_bytes, cur_tree_len, &r); /* main context: allocated in the shared arena */
  vs_freeze_shared(false);
  frozen_img = fnv(7, vs_shared_base(), vs_shared_used());
}
static void reader(int t) { res[t] = run_op(reader_op[t], shared_tree); }
static bool check18(const struct vs_exec* e) {
  char a[160], b[160];
  bool ok = true;
  if (e->frozen_stores) {
    vf_fail(tree_has_tag(shared_tree) ? "readonly-op-writes-tag-child-refcount" : NULL, "%s: a reader stores into the shared tree (offset %#tx, from %s)", scen_name, (char*)e->frozen_addr - (const char*)vs_shared_base(), symname(e->frozen_pc, a, sizeof a));
    ok = false;
  } else if (e->races) {
    vf_fail(NULL, "%s: data race between readers on %s", scen_name, addrname(e->race_addr, b, sizeof b));
    ok = false;
  }
  if (fnv(7, vs_shared_base(), frozen_img ? vs_shared_used() : 0) != frozen_img) {
    vf_fail(tree_has_tag(shared_tree) ? "readonly-op-writes-tag-child-refcount" : NULL, "%s: shared tree differs after the readers finished (lost update of a reference count?) - schedule with %u preemptions", scen_name, e->preemptions);
    ok = false;
  }
  for (int t = 0; t < cur_n && ok; t++)
    if (res[t] != solo[reader_op[t]]) {
      vf_fail(NULL, "%s: reader %d obtained a different result than when running alone", scen_name, t);
      ok = false;
    }
  vs_unfreeze();
  return ok;
}
#endif

/* ------------------------------------------------------------------ units */
static void add_stats(const struct vs_stats* st, bool reduced_mode) {
  vf_cnt(VC_EVAL, st->executions);
  vf_cnt(VC_TRACES, st->executions);
  vf_cnt(VC_TRANS, st->points);
  vf_cnt(K_POINTS, st->points);
  if (st->max_points > vf_cnt_get_local(K_MAXPOINTS)) vf_cnt(K_MAXPOINTS, st->max_points - vf_cnt_get_local(K_MAXPOINTS));
  vf_cnt(K_SHARED_ADDRS, st->distinct_shared_addrs);
  vf_cnt(K_SHARED_WRITTEN, st->shared_written_addrs);
  vf_cnt(reduced_mode ? K_REDUCED : K_UNREDUCED, st->executions);
  vf_cnt(K_BOUND0 + (st->bound_completed > 3 ? 3 : st->bound_completed), 1);
  if (st->capped) { vf_cnt(K_CAPPED, 1); vf_not_exhaustive("an unreduced exploration hit its execution cap (the reduced exploration of the same scenario completed)"); }
}
static void selftest_unit(void) {
  vf_case("selftest", "", 0);
  vs_body b[2] = {racy_thread, racy_thread};
  struct vs_stats st;
  racy_lost = racy_race = 0;
  vs_explore(2, b, 1, 0, 100000, racy_setup, racy_check, &st);
  vf_cnt(K_SELFTEST_EXEC, st.executions);
  if (!racy_race || !racy_lost)
    vf_fail(NULL, "explorer self-test: the unsynchronised x++ control shows %d racy and %d lost-update executions out of %" PRIu64 " at preemption bound 1 - the explorer is broken", racy_race, racy_lost, st.executions);
  else
    vf_sample("self-test: racy x++ control: %" PRIu64 " schedules at bound <= 1, %d with a detected race, %d with a lost update", st.executions, racy_race, racy_lost);
}

#if PROP == 17
static int SCEN[64][3];
static int SCEN_N[64];
static unsigned nscen;
static void scen_unit(unsigned s) {
  cur_n = SCEN_N[s];
  vs_body b[3] = {body, body, body};
  snprintf(scen_name, sizeof scen_name, "%s | %s%s%s", BODY_NAME[SCEN[s][0]], BODY_NAME[SCEN[s][1]], cur_n > 2 ? " | " : "", cur_n > 2 ? BODY_NAME[SCEN[s][2]] : "");
  uint8_t d[4] = {(uint8_t)cur_n, (uint8_t)SCEN[s][0], (uint8_t)SCEN[s][1], (uint8_t)SCEN[s][2]};
  vf_case("scenario", d, 4);
  vf_cnt(K_SCEN, 1);
  vf_cnt(VC_DISTINCT, 1);
  /* solo digests */
  for (int k = 0; k < 4; k++) {
    struct vs_stats st;
    body_kind[0] = k;
    vs_explore(1, b, 0, 0, 10, NULL, check_solo, &st);
    solo[k] = res[0];
  }
  for (int t = 0; t < cur_n; t++) body_kind[t] = SCEN[s][t];
  struct vs_stats st;
  /* reduced: scheduling points at conflict candidates only (one representative per Mazurkiewicz trace) */
  vs_explore(cur_n, b, 2, VS_REDUCED, 2000000, NULL, check17, &st);
  add_stats(&st, true);
  vf_state(vf_mix(s, st.executions));
  /* unreduced cross-check: every shared access is a scheduling point */
  int ub = cur_n == 2 ? (vf_tier ? 3 : 2) : (vf_tier ? 2 : 1);
  uint64_t cap = vf_tier ? 4000000 : 400000;
  vs_explore(cur_n, b, ub, 0, cap, NULL, check17, &st);
  add_stats(&st, false);
  vf_sample("scenario %s: unreduced exploration to bound %u%s: %" PRIu64 " schedules, %" PRIu64 " scheduling points per schedule at most, %" PRIu64 " distinct shared addresses, %" PRIu64 " of them written", scen_name,
            st.bound_completed, st.capped ? " (capped)" : "", st.executions, st.max_points, st.distinct_shared_addrs, st.shared_written_addrs);
}
/* hand-over: items that exist before the threads start - an original, its cbor_copy, a copy of the copy, a re-load of its serialization - are each
 * given to ONE thread, which inspects, copies and releases it. No item is shared between threads as far as the client can tell, so no schedule
 * may contain a race: anything two of these "independent" items share behind the client's back shows up as a conflicting access */
static const uint8_t HO_IN[] = {0x83, 0x5f, 0x42, 1, 2, 0x40, 0xff, 0xa2, 0x61, 'a', 0xc1, 0xc2, 0x00, 0x20, 0x7f, 0x60, 0x61, 'b', 0xff, 0xf9, 0x3e, 0x00};
static const uint8_t HO_IN2[] = {0x9f, 0x82, 0x01, 0x80, 0xbf, 0x40, 0x60, 0xff, 0xd8, 0x18, 0x5f, 0xff, 0x7f, 0xff, 0xfb, 0x7f, 0xf8, 0, 0, 0, 0, 0, 1, 0xf6, 0xff};
static cbor_item_t* ho_item[VS_MAXT];
static int ho_variant, ho_which;
static void ho_setup(void) {
  struct cbor_load_result r;
  const uint8_t* in = ho_which ? HO_IN2 : HO_IN;
  size_t n = ho_which ? sizeof HO_IN2 : sizeof HO_IN;
  cbor_item_t* orig = cbor_load(in, n, &r);
  memset(ho_item, 0, sizeof ho_item);
  if (!orig) return;
  switch (ho_variant) {
    case 0: ho_item[0] = orig; ho_item[1] = cbor_copy(orig); ho_item[2] = ho_item[1] ? cbor_copy(ho_item[1]) : NULL; break; /* original | copy | copy of the copy */
    case 1: { /* original | re-load of its serialization | copy of that */
      unsigned char* b = NULL;
      size_t bs = 0, w = cbor_serialize_alloc(orig, &b, &bs);
      ho_item[0] = orig;
      ho_item[1] = w ? cbor_load(b, w, &r) : NULL;
      ho_item[2] = ho_item[1] ? cbor_copy(ho_item[1]) : NULL;
      break;
    }
    default: { /* the copies survive the original: it is released before the threads start */
      ho_item[0] = cbor_copy(orig);
      ho_item[1] = cbor_copy(orig);
      ho_item[2] = ho_item[0] ? cbor_copy(ho_item[0]) : NULL;
      cbor_decref(&orig);
    }
  }
}
static void ho_body(int t) {
  cbor_item_t* it = ho_item[t];
  uint64_t h = 43;
  if (!it) { res[t] = 0; return; }
  h = describe_digest(it, h);
  size_t sz = cbor_serialized_size(it);
  unsigned char out[96];
  size_t w = cbor_serialize(it, out, sizeof out);
  h = fnv(fnv(h, &sz, sizeof sz), out, w);
  cbor_item_t* c = cbor_copy(it);
  if (c) {
    w = cbor_serialize(c, out, sizeof out);
    h = fnv(h, out, w);
    cbor_decref(&c);
  }
  cbor_decref(&it);
  res[t] = h;
}
static uint64_t ho_solo;
static bool ho_check(const struct vs_exec* e) {
  char a[160], b[160];
  if (e->races) {
    vf_fail(NULL, "%s: data race on %s: thread %d (%s) and thread %d (%s) access it without ordering although every thread works on an item of its own", scen_name, addrname(e->race_addr, a, sizeof a), e->race_t1,
            e->race_w1 ? "store" : "load", e->race_t2, e->race_w2 ? "store" : "load");
    return false;
  }
  if (e->global_writes) {
    vf_fail(NULL, "%s: library code (%s) stores to %s: hidden mutable global state", scen_name, symname(e->global_pc, a, sizeof a), addrname(e->global_addr, b, sizeof b));
    return false;
  }
  for (int t = 0; t < cur_n; t++)
    if (res[t] != ho_solo) {
      vf_fail(NULL, "%s: thread %d obtained different results than when running alone (schedule with %u preemptions)", scen_name, t, e->preemptions);
      return false;
    }
  return true;
}
static bool ho_check_solo(const struct vs_exec* e) { (void)e; return true; }
#define NHANDOVER 12 /* 2 inputs x 3 variants x {2, 3} threads */
static void handover_unit(unsigned s) {
  ho_which = (int)(s % 2);
  ho_variant = (int)(s / 2 % 3);
  cur_n = s / 6 ? 3 : 2;
  static const char* VN[] = {"original | copy | copy of the copy", "original | re-load of its serialization | copy of that", "two copies and a copy of a copy, original released"};
  snprintf(scen_name, sizeof scen_name, "hand-over (%s; input %d; %d threads)", VN[ho_variant], ho_which, cur_n);
  uint8_t d[4] = {0xfe, (uint8_t)s, 0, 0};
  vf_case("handover", d, 4);
  vf_cnt(K_SCEN, 1);
  vf_cnt(K_HANDOVER, 1);
  vf_cnt(VC_DISTINCT, 1);
  vs_body b[3] = {ho_body, ho_body, ho_body};
  struct vs_stats st;
  int keep = cur_n;
  cur_n = 1;
  vs_explore(1, b, 0, 0, 10, ho_setup, ho_check_solo, &st);
  ho_solo = res[0];
  cur_n = keep;
  vs_explore(cur_n, b, 2, VS_REDUCED, 2000000, ho_setup, ho_check, &st);
  add_stats(&st, true);
  vf_state(vf_mix(1000 + s, st.executions));
  vs_explore(cur_n, b, vf_tier ? (cur_n == 2 ? 2 : 1) : (cur_n == 2 ? 1 : 0), 0, 4000000, ho_setup, ho_check, &st); /* every access to an item is a scheduling point here: the items live in shared memory */
  add_stats(&st, false);
  vf_sample("scenario %s: unreduced exploration to bound %u%s: %" PRIu64 " schedules, %" PRIu64 " distinct shared addresses, %" PRIu64 " of them written", scen_name, st.bound_completed, st.capped ? " (capped)" : "",
            st.executions, st.distinct_shared_addrs, st.shared_written_addrs);
}
/* 'keeps no state between calls' / 'allocates nothing' at store level: the streaming decoder, encoders, size and
 * fixed-buffer serialization perform no store outside the caller's stack and the output buffer */
static void watch_unit(void) {
  vf_case("watch", "", 0);
  static const uint8_t IN[] = {0x18, 0x2a, 0x39, 0x01, 0x00, 0x43, 1, 2, 3, 0x7f, 0x9f, 0xa1, 0xc2, 0xfb, 0x3f, 0xf0, 0, 0, 0, 0, 0, 0, 0xf9, 0x7e, 0x00, 0xf6, 0xff, 0x1c, 0x5b, 0xff, 0xff, 0xff, 0xff, 0xff, 0xff, 0xff, 0xff};
  for (size_t off = 0; off < sizeof IN; off++)
    for (size_t n = 0; n <= sizeof IN - off && n < 12; n++) {
      vf_rec rec;
      vf_rec_reset(&rec);
      vs_watch_begin();
      struct cbor_decoder_result r = cbor_stream_decode(IN + off, n, &vf_rec_callbacks, &rec);
      struct vs_exec e = vs_watch_end();
      (void)r;
      vf_cnt(K_WATCH_CALLS, 1);
      vf_cnt(VC_EVAL, 1);
      if (e.nonstack_writes) {
        char a[160], b[160];
        vf_fail(NULL, "cbor_stream_decode stores outside its caller's stack: %s written from %s (state kept between calls?)", addrname(e.nonstack_addr, a, sizeof a), symname(e.nonstack_pc, b, sizeof b));
        return;
      }
    }
}
#endif

#if PROP == 17
/* 'The library keeps no hidden mutable global state', decided on the whole input space without any scheduling: in the trace build every
 * store of library code is observed; a store whose address is neither in an allocator arena nor on the caller's stack is a store to a
 * global / static object.  Every input of the pushdown DFS, every boundary-corpus item and every constructed tree goes through
 * decode - describe - size - serialize - serialize_alloc - copy - release, the streaming decoder and the encoders. */
static FILE* sweep_null;
static void sweep_judge(const struct vs_exec* e, const char* what, const uint8_t* b, size_t n) {
  if (e->global_writes) {
    char a[160], c[160], hx[80];
    vf_hex(hx, sizeof hx, b, n < 36 ? n : 36);
    vf_fail(NULL, "%s of input %s: library code (%s) stores to %s: hidden mutable global state", what, hx, symname(e->global_pc, a, sizeof a), addrname(e->global_addr, c, sizeof c));
  }
}
static void sweep_input(const uint8_t* b, size_t n) {
  vf_case("sweep", b, n > 4000 ? 4000 : n);
  vf_cnt(K_SWEEP, 1);
  vf_cnt(VC_EVAL, 1);
  vs_reset_arenas();
  struct cbor_load_result res;
  vs_watch_begin();
  cbor_item_t* it = cbor_load(b, n, &res);
  if (it) {
    cbor_describe(it, sweep_null);
    size_t sz = cbor_serialized_size(it);
    unsigned char* out = vs_malloc(sz + 1);
    if (out) (void)cbor_serialize(it, out, sz);
    unsigned char* ab = NULL;
    size_t abs_ = 0;
    (void)cbor_serialize_alloc(it, &ab, &abs_);
    cbor_item_t* c = cbor_copy(it);
    if (c) cbor_decref(&c);
    cbor_decref(&it);
  }
  /* the streaming decoder over the same bytes */
  size_t off = 0;
  vf_rec rec;
  while (off < n) {
    vf_rec_reset(&rec);
    struct cbor_decoder_result r = cbor_stream_decode(b + off, n - off, &vf_rec_callbacks, &rec);
    if (r.status != CBOR_DECODER_FINISHED || r.read == 0) break;
    off += r.read;
  }
  struct vs_exec e = vs_watch_end();
  sweep_judge(&e, "decode/describe/serialize/copy/release", b, n);
}
/* tag numbers with a registered meaning are where a library grows special cases (date/time, bignum, embedded CBOR, URI ...): every tag number
 * 0..255 and the first numbers of the wider heads, around every single head of Sigma */
static void sweep_tags(void) {
  for (unsigned tn = 0; tn < 256 + 6; tn++) {
    uint8_t in[32];
    size_t hl;
    if (tn < 24) { in[0] = (uint8_t)(0xc0 + tn); hl = 1; }
    else if (tn < 256) { in[0] = 0xd8; in[1] = (uint8_t)tn; hl = 2; }
    else {
      static const uint8_t WIDE[6][9] = {{0xd9, 0x01, 0x00}, {0xd9, 0xd9, 0xf7}, {0xda, 0x00, 0x01, 0x00, 0x00}, {0xdb, 0, 0, 0, 1, 0, 0, 0, 0}, {0xd9, 0x00, 0x01}, {0xdb, 0, 0, 0, 0, 0, 0, 0, 1}};
      static const uint8_t WL[6] = {3, 3, 5, 9, 3, 9};
      memcpy(in, WIDE[tn - 256], WL[tn - 256]);
      hl = WL[tn - 256];
    }
    for (size_t k = 0; k < VF_SIGMA.ntoks; k++) {
      if (hl + VF_SIGMA.toks[k].n + 2 > sizeof in) continue;
      memcpy(in + hl, VF_SIGMA.toks[k].b, VF_SIGMA.toks[k].n);
      size_t n = hl + VF_SIGMA.toks[k].n;
      in[n] = 0x00;     /* one element, should the head have opened a container */
      in[n + 1] = 0xff; /* and a break, should it be an indefinite one */
      sweep_input(in, n);
      sweep_input(in, n + 1);
      sweep_input(in, n + 2);
      vf_cnt(K_TAG_SWEEP, 3);
    }
  }
}
static void sweep_seq_cb(const vf_seq* s, void* ctx) {
  (void)ctx;
  uint8_t buf[12 * 16];
  memcpy(buf, s->bytes, s->n);
  sweep_input(buf, s->n);
}
static void sweep_misc(void) {
  /* builders, setters, encoders with the values of the structured sets, strings incl. invalid UTF-8 */
  vf_case("sweep-misc", "", 0);
  vs_reset_arenas();
  vs_watch_begin();
  unsigned char o[16];
  for (unsigned i = 0; i < VF_NS64; i++) {
    uint64_t v = VF_S64[i];
    float f; uint32_t u32 = (uint32_t)v; memcpy(&f, &u32, 4);
    double d; memcpy(&d, &v, 8);
    (void)cbor_encode_uint8((uint8_t)v, o, 16); (void)cbor_encode_uint16((uint16_t)v, o, 16); (void)cbor_encode_uint32((uint32_t)v, o, 16); (void)cbor_encode_uint64(v, o, 16); (void)cbor_encode_uint(v, o, 16);
    (void)cbor_encode_negint8((uint8_t)v, o, 16); (void)cbor_encode_negint16((uint16_t)v, o, 16); (void)cbor_encode_negint32((uint32_t)v, o, 16); (void)cbor_encode_negint64(v, o, 16); (void)cbor_encode_negint(v, o, 16);
    (void)cbor_encode_bytestring_start(v, o, 16); (void)cbor_encode_string_start(v, o, 16); (void)cbor_encode_array_start(v, o, 16); (void)cbor_encode_map_start(v, o, 16); (void)cbor_encode_tag(v, o, 16);
    (void)cbor_encode_half(f, o, 16); (void)cbor_encode_single(f, o, 16); (void)cbor_encode_double(d, o, 16); (void)cbor_encode_ctrl((uint8_t)v, o, 16); (void)cbor_encode_bool(v & 1, o, 16);
    if ((i & 15) == 0) vs_reset_arenas();
    cbor_item_t* items[] = {cbor_build_uint8((uint8_t)v), cbor_build_uint16((uint16_t)v), cbor_build_uint32((uint32_t)v), cbor_build_uint64(v), cbor_build_negint8((uint8_t)v), cbor_build_negint64(v),
                            cbor_build_float2(f), cbor_build_float4(f), cbor_build_float8(d), cbor_build_ctrl((uint8_t)v), cbor_build_bool(v & 1), cbor_new_null(), cbor_new_undef(),
                            cbor_build_stringn((const char*)&v, 8), cbor_build_bytestring((cbor_data)&v, 8), cbor_build_string("\xc3\xa9\xff")};
    for (unsigned k = 0; k < sizeof items / sizeof items[0]; k++)
      if (items[k]) { (void)cbor_serialized_size(items[k]); (void)cbor_serialize(items[k], o, 16); cbor_decref(&items[k]); }
    vf_cnt(K_SWEEP, 1);
  }
  struct vs_exec e = vs_watch_end();
  sweep_judge(&e, "builders / encoders", (const uint8_t*)"", 0);
}
static void sweep_con_unit(uint64_t u) {
  vt_choices ch;
  memset(&ch, 0, sizeof ch);
  unsigned want[3] = {(unsigned)(u / 128), (unsigned)(u / 16 % 8), (unsigned)(u % 16)};
  for (int i = 0; i < 3; i++) ch.c[i] = (uint8_t)want[i];
  ch.fixed = 3;
  uint64_t ord = 0;
  for (;;) {
    vs_reset_arenas();
    vs_watch_begin();
    cbor_item_t* t = vt_build(&ch, 2);
    bool valid = true;
    if (ord == 0)
      for (unsigned i = 0; i < 3; i++)
        if (i < ch.n ? want[i] >= ch.arity[i] : want[i] != 0) valid = false;
    if (t && valid && (vf_tier || ord % 8 == 0)) {
      vf_case("sweep-ctree", ch.c, VT_MAXCHOICES);
      cbor_describe(t, sweep_null);
      size_t sz = cbor_serialized_size(t);
      unsigned char* out = vs_malloc(sz + 1);
      if (out) (void)cbor_serialize(t, out, sz);
      cbor_item_t* c = cbor_copy(t);
      if (c) cbor_decref(&c);
      vf_cnt(K_SWEEP, 1);
      vf_cnt(VC_EVAL, 1);
    }
    if (t) cbor_decref(&t);
    struct vs_exec e = vs_watch_end();
    if (valid) sweep_judge(&e, "construction / describe / serialize / copy of a constructed tree", ch.c, 8);
    if (!valid) return;
    ord++;
    if (!vt_next(&ch)) break;
  }
}
static uint64_t sweep_dfs_units, sweep_con_units = 256;
#endif

#if PROP == 18
static unsigned dfs_k;
static uint64_t dfs_units, con_units = 256, e5_units;
static void a_seq_cb(const vf_seq* s, void* ctx) {
  (void)ctx;
  if (s->status != VD_ACCEPT) return;
  uint8_t buf[12 * 16];
  memcpy(buf, s->bytes, s->n);
  vf_case("tree-bytes", buf, s->n);
  vs_reset_arenas();
  struct cbor_load_result r;
  cbor_item_t* t = cbor_load(buf, s->n, &r);
  if (!t) return;
  vf_cnt(VC_DISTINCT, 1);
  char hx[80];
  vf_hex(hx, sizeof hx, buf, s->n);
  frozen_ops(t, hx);
}
/* boundary-corpus items that fit the arena: deep nesting (30 .. 2048 levels), wide containers, long strings */
static void a_corpus_unit(uint64_t i) {
  size_t n;
  const char* name;
  const uint8_t* b = vf_corpus_item(i, &n, &name);
  if (n > 20000) return;
  vf_case("tree-corpus", b, n);
  vs_reset_arenas();
  struct cbor_load_result r;
  cbor_item_t* t = cbor_load(b, n, &r);
  if (!t) return;
  vf_cnt(VC_DISTINCT, 1);
  vf_cnt(K_DEEP_TREES, 1);
  frozen_ops(t, name);
}
static void a_con_unit(uint64_t u) {
  vt_choices ch;
  memset(&ch, 0, sizeof ch);
  unsigned want[3] = {(unsigned)(u / 128), (unsigned)(u / 16 % 8), (unsigned)(u % 16)};
  for (int i = 0; i < 3; i++) ch.c[i] = (uint8_t)want[i];
  ch.fixed = 3;
  vs_reset_arenas();
  cbor_item_t* t = vt_build(&ch, 2);
  bool valid = true;
  for (unsigned i = 0; i < 3; i++)
    if (i < ch.n ? want[i] >= ch.arity[i] : want[i] != 0) valid = false;
  if (!valid) return;
  uint64_t ord = 0;
  for (;;) {
    if (t && (vf_tier || ord % 8 == 0)) {
      vf_case("tree-choices", ch.c, VT_MAXCHOICES);
      vf_cnt(VC_DISTINCT, 1);
      frozen_ops(t, "constructed tree");
    }
    ord++;
    if (!vt_next(&ch)) break;
    vs_reset_arenas();
    t = vt_build(&ch, 2);
  }
}
#ifndef VF_MPROTECT
/* (b): every accepted sequence of the DFS over Sigma' x every unordered pair of reader operations */
static void b_seq_cb(const vf_seq* s, void* ctx) {
  (void)ctx;
  if (s->status != VD_ACCEPT) return;
  static uint8_t buf[12 * 16];
  memcpy(buf, s->bytes, s->n);
  cur_tree_bytes = buf;
  cur_tree_len = s->n;
  vs_body b[3] = {reader, reader, reader};
  static const int OPS[] = {OP_SIZE, OP_SERIALIZE, OP_SERIALIZE_ALLOC, OP_GETTERS};
  /* solo digests per op */
  for (int k = 0; k < 4; k++) {
    struct vs_stats st;
    reader_op[0] = OPS[k];
    cur_n = 0;
    vs_explore(1, b, 0, 0, 10, setup18, NULL, &st);
    solo[OPS[k]] = res[0];
    vs_unfreeze();
  }
  int nthreads = vf_tier ? 3 : 2;
  for (int i = 0; i < 4; i++)
    for (int j = i; j < 4; j++) {
      for (int third = 0; third < (nthreads == 3 ? 2 : 1); third++) {
        cur_n = nthreads;
        reader_op[0] = OPS[i];
        reader_op[1] = OPS[j];
        reader_op[2] = OPS[third ? 3 : 0];
        char hx[64];
        vf_hex(hx, sizeof hx, buf, s->n);
        snprintf(scen_name, sizeof scen_name, "readers {%s | %s%s%s} of tree %s", OPNAME[OPS[i]], OPNAME[OPS[j]], nthreads == 3 ? " | " : "", nthreads == 3 ? OPNAME[reader_op[2]] : "", hx);
        uint8_t d[4 + 12 * 16] = {(uint8_t)nthreads, (uint8_t)reader_op[0], (uint8_t)reader_op[1], (uint8_t)reader_op[2]};
        memcpy(d + 4, buf, s->n);
        vf_case("readers", d, 4 + s->n);
        vf_cnt(K_SCEN, 1);
        struct vs_stats st;
        vs_explore(nthreads, b, 2, VS_REDUCED, 200000, setup18, check18, &st);
        add_stats(&st, true);
        /* unreduced cross-check on the small ones */
        vs_explore(nthreads, b, nthreads == 2 ? 2 : 1, 0, 20000, setup18, check18, &st);
        add_stats(&st, false);
      }
    }
}
#endif
#endif

static void unit(uint64_t u) {
#if PROP == 17
  if (u == 0) { selftest_unit(); return; }
  if (u == 1) { watch_unit(); return; }
  if (u < 2 + nscen) { scen_unit((unsigned)(u - 2)); return; }
  u -= 2 + nscen;
  if (u < NHANDOVER) { handover_unit((unsigned)u); return; }
  u -= NHANDOVER;
  if (u < sweep_dfs_units) { vf_dfs_unit(&VF_SIGMA, vf_tier ? 5 : 4, u, CBOR_MAX_STACK_SIZE, 64 * 1024, sweep_seq_cb, NULL); return; }
  u -= sweep_dfs_units;
  if (u < vf_corpus_count()) { size_t n; const uint8_t* b = vf_corpus_item(u, &n, NULL); if (n < 20000) sweep_input(b, n); return; }
  u -= vf_corpus_count();
  if (u < sweep_con_units) { sweep_con_unit(u); return; }
  u -= sweep_con_units;
  if (u == 0) { sweep_misc(); return; }
  sweep_tags();
#else
#ifndef VF_MPROTECT
  if (u == 0) { selftest_unit(); return; }
  u -= 1;
#endif
  if (u < dfs_units) { vf_dfs_unit(&VF_SIGMA, dfs_k, u, CBOR_MAX_STACK_SIZE, 64 * 1024, a_seq_cb, NULL); return; }
  u -= dfs_units;
  if (u < con_units) { a_con_unit(u); return; }
  u -= con_units;
  if (u < vf_corpus_count()) { a_corpus_unit(u); return; }
  u -= vf_corpus_count();
#ifndef VF_MPROTECT
  vf_dfs_unit(&VF_SIGMA1, vf_tier ? 4 : 3, u, CBOR_MAX_STACK_SIZE, 64 * 1024, b_seq_cb, NULL);
#endif
#endif
}
static uint64_t units(void) {
#if PROP == 17
  return 2 + nscen + NHANDOVER + sweep_dfs_units + vf_corpus_count() + sweep_con_units + 2;
#else
#ifdef VF_MPROTECT
  return dfs_units + con_units + vf_corpus_count();
#else
  return 1 + dfs_units + con_units + vf_corpus_count() + e5_units;
#endif
#endif
}
static void init(void) {
  vf_enum_init();
  vs_init();
  cbor_set_allocs(vs_malloc, vs_realloc, vs_free); /* configured once, before any thread starts */
#if PROP == 17
  for (int i = 0; i < 4; i++)
    for (int j = i; j < 4; j++) { SCEN[nscen][0] = i; SCEN[nscen][1] = j; SCEN_N[nscen++] = 2; }
  for (int i = 0; i < 4; i++)
    for (int j = i; j < 4; j++)
      for (int k = j; k < 4; k++) { SCEN[nscen][0] = i; SCEN[nscen][1] = j; SCEN[nscen][2] = k; SCEN_N[nscen++] = 3; }
  vf_corpus_init();
  vf_sets_init();
  sweep_null = fopen("/dev/null", "w");
  sweep_dfs_units = vf_dfs_units(&VF_SIGMA);
#else
  vf_corpus_init();
  dfs_k = vf_tier ? 4 : 3;
  dfs_units = vf_dfs_units(&VF_SIGMA);
  e5_units = vf_dfs_units(&VF_SIGMA1);
#ifdef VF_MPROTECT
  vf_extra("variant", "library compiled WITHOUT instrumentation (%s); frozen arena is mprotect(PROT_READ): a store is a SIGSEGV", VF_MPROTECT);
#else
  vf_extra("variant", "library compiled with -fsanitize=thread instrumentation only, linked against the harness' own __tsan_* runtime: every load/store is observed");
#endif
#endif
}
static void replay(const char* tag, const uint8_t* d, size_t len) {
  if (!strcmp(tag, "selftest")) { selftest_unit(); return; }
#if PROP == 17
  if (!strcmp(tag, "watch")) { watch_unit(); return; }
  if (!strcmp(tag, "handover") && len >= 2) { handover_unit(d[1] % NHANDOVER); return; }
  if (!strcmp(tag, "sweep")) { sweep_input(d, len); return; }
  if (!strcmp(tag, "sweep-misc")) { sweep_misc(); return; }
  if (!strcmp(tag, "sweep-ctree")) { fprintf(stderr, "constructed-tree sweep cases are enumerated by unit: re-run the check\n"); return; }
  if (len >= 4) {
    for (unsigned s = 0; s < nscen; s++)
      if (SCEN_N[s] == d[0] && SCEN[s][0] == d[1] && SCEN[s][1] == d[2] && (d[0] == 2 || SCEN[s][2] == d[3])) { scen_unit(s); return; }
  }
#else
  if (!strcmp(tag, "tree-bytes")) {
    size_t off[2] = {0, len};
    rdecode rd = {.ok = true};
    vf_seq sq = {d, len, 1, off, VD_ACCEPT, &rd};
    a_seq_cb(&sq, NULL);
  } else if (!strcmp(tag, "tree-corpus")) {
    vs_reset_arenas();
    struct cbor_load_result r;
    cbor_item_t* t = cbor_load(d, len, &r);
    if (t) frozen_ops(t, "boundary corpus item");
  } else if (!strcmp(tag, "tree-choices")) {
    vt_choices ch;
    memset(&ch, 0, sizeof ch);
    memcpy(ch.c, d, len < VT_MAXCHOICES ? len : VT_MAXCHOICES);
    vs_reset_arenas();
    cbor_item_t* t = vt_build(&ch, 2);
    if (t) frozen_ops(t, "constructed tree");
  }
#ifndef VF_MPROTECT
  else if (!strcmp(tag, "readers") && len > 4) {
    size_t off[2] = {0, len - 4};
    rdecode rd = {.ok = true};
    vf_seq sq = {d + 4, len - 4, 1, off, VD_ACCEPT, &rd};
    b_seq_cb(&sq, NULL); /* re-explores every reader pair of this tree: deterministic */
  }
#endif
#endif
}
struct vf_check vf_the_check = {
#if PROP == 17
    .property = "C17",
    .level = "model_checking",
    .rule = "scenarios = all 10 unordered pairs and all 20 unordered triples of the thread bodies {W_decode, W_build, W_stream, W_err} (identical bodies included), each on thread-private data with the "
            "allocator configured once. Per scenario: (1) reduced exploration, preemption bound 0,1,2: scheduling points only at conflict candidates (addresses touched by >= 2 threads with >= 1 store), closed "
            "under re-exploration; (2) unreduced exploration: every access of library code to non-thread-private memory is a scheduling point, pairs to bound 2 (3 in the thorough tier), triples to bound 1 (2), each capped at 400 000 (4 000 000) schedules. evaluations = complete "
            "schedules executed on the real object code, transitions = scheduling points taken, states = schedules; distinct_nontrivial = scenarios. Oracles on every execution: no conflicting access pair, no "
            "store to a global/static object, no access to another thread's private memory, per-thread result digest = digest of the thread running alone. "
            "(2b) 12 hand-over scenarios: an original, its cbor_copy, a copy of the copy / a re-load of its serialization are created before the threads start and each given to one thread, which describes, "
            "serializes, copies and releases it (2 inputs with zero-length chunks, nested tags, empty containers; 2 and 3 threads): same explorations, same oracles. "
            "(3) Global-state sweep, no scheduling needed: every input of the pushdown DFS over Sigma (4/5 heads), every boundary-corpus item, every tag number 0..255 (and six wider ones) in front of every head of Sigma, every 8th (every) constructed tree and all builders / "
            "encoders on the structured value sets are run through the whole client pipeline in the trace build; any store of library code to memory that is neither an allocator arena nor the "
            "caller's stack is hidden mutable global state",
    .bounds = {"pairs + triples; reduced to bound 2; unreduced to bound 2 (pairs) / 1 (triples)", "pairs + triples; reduced to bound 2; unreduced to bound 3 (pairs) / 2 (triples), capped at 4 000 000 schedules per scenario"},
#else
    .property = "C18",
    .level = "model_checking",
    .rule = "(a) every tree of the C03 space (decoder-derived from the DFS over Sigma + constructed grammar) x {serialized_size, serialize with n = size and n = size-1, serialize_alloc, every predicate and "
            "getter on every node}: the tree lives in an arena that is frozen before the operation; any store into it is a violation (trace build: observed by the instrumentation; gcc -O2 and -O0 "
            "builds: the arena is mprotect(PROT_READ)); (b) 2 (thorough: 3) concurrent readers of one shared frozen tree for every accepted sequence of the DFS over Sigma' and every unordered pair of reader "
            "operations, preemption bound 2 (reduced to conflict candidates) and an unreduced cross-check. evaluations = operations judged + schedules executed; distinct_nontrivial = distinct trees",
    .bounds = {"(a) DFS to 3 heads + every 8th constructed tree; (b) trees of <= 3 heads over Sigma', 2 readers, bound 2", "(a) DFS to 4 heads + all constructed trees; (b) trees of <= 4 heads, 3 readers, bound 2"},
#endif
    .assumptions = {"interleaving granularity = individual memory accesses of the library's object code (clang -fsanitize=thread instrumentation with read-before-write kept, plus memcpy/memset/strlen redirected "
                    "to reporting wrappers); sequential consistency; weaker hardware orderings are immaterial because any conflicting pair is already reported as a race",
                    "libc calls made by the library (fprintf in cbor_describe, ldexp) are atomic steps; each thread uses its own FILE",
                    "the library uses no locks or atomics, so two accesses of different threads to overlapping bytes with at least one store are a data race by definition",
                    "explorer self-test: an unsynchronised x++ control must show a detected race and a lost update at preemption bound 1, otherwise the check reports itself broken"},
    .counters = {[VC_EVAL] = "schedules_or_operations_executed", [VC_DISTINCT] = "distinct_scenarios_or_trees", [VC_TRANS] = "scheduling_points_taken", [VC_TRACES] = "executed_on_implementation",
                 [K_SCEN] = "scenarios", [K_HANDOVER] = "hand_over_scenarios", [K_TAG_SWEEP] = "tag_number_sweep_inputs", [K_POINTS] = "scheduling_points", [K_MAXPOINTS] = "sum_over_workers_of_max_points_per_schedule", [K_SHARED_ADDRS] = "shared_addresses_seen_summed_over_explorations",
                 [K_SHARED_WRITTEN] = "shared_addresses_written_summed_over_explorations", [K_SELFTEST_EXEC] = "selftest_schedules", [K_WATCH_CALLS] = "store_watched_decoder_calls",
                 [K_TREES] = "trees_frozen", [K_TREES_WITH_TAG] = "trees_containing_a_tag", [K_REFUSED_RUNS] = "read_only_operations_run_with_their_allocator_requests_refused", [K_DEEP_TREES] = "boundary_corpus_trees_frozen", [K_TREES_WITH_HISTORY] = "trees_frozen_again_after_refused_operations", [K_REFUSED_OPS] = "refused_operations_applied_before_freezing", [K_OPS] = "read_only_operations_on_frozen_trees", [K_BOUND0] = "explorations_completed_at_bound_0",
                 [K_BOUND1] = "explorations_completed_at_bound_1", [K_BOUND2] = "explorations_completed_at_bound_2", [K_BOUND3] = "explorations_completed_at_bound_3",
                 [K_REDUCED] = "schedules_in_reduced_explorations", [K_UNREDUCED] = "schedules_in_unreduced_explorations", [K_CAPPED] = "unreduced_explorations_capped", [K_SWEEP] = "inputs_and_trees_swept_for_stores_to_global_objects"},
    .init = init, .units = units, .unit = unit, .replay = replay, .states_counter = VC_EVAL + 1};
