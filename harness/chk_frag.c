/* C09 (explorer E4): feeding a stream in fragments yields the events of one-shot decoding.
 * For every enumerated stream the client's state graph  (consumed c, buffered b, outstanding `required`)  is
 * searched exhaustively: transitions are "a fragment of s bytes arrives" for every s >= 1 and "the client
 * calls cbor_stream_decode on the b buffered bytes" (allowed once b >= required).  The real decoder is
 * invoked at every reachable (c, b) - with the buffered bytes flush against a guard page - and judged against
 * the reference tokenisation.  That covers all 2^(n-1) fragmentations with O(n^2) decoder calls; the
 * reduction (the decoder is a pure function of the bytes it is given) is cross-checked by running the real
 * client loop over ALL fragmentations of every short stream without any memoisation. */
#define _GNU_SOURCE
#include <inttypes.h>

#include "cbor.h"
#include "vf.h"
#include "vf_alloc.h"
#include "vf_enum.h"
#include "vf_rec.h"
#include "vf_ref.h"

enum { K_STREAMS = VC_USER, K_DECODER_CALLS, K_FIN, K_NED, K_ERR, K_BRUTE_STREAMS, K_BRUTE_FRAGS, K_LONG_STREAMS, K_WAITS, K_TERMINAL, K_HUGE_TAILS };

#define MAXN 1400
#define MAXTOK 16
static vf_tok OKT[96];
static size_t nok;
static vf_tok BADT[16];
static size_t nbad;
static unsigned seq_k, brute_n, brute_k;
static uint64_t seq_units, long_units = 24;

typedef struct { uint8_t status; size_t read, required; vf_event ev; bool has; } memo_t;

static struct stream {
  uint8_t b[MAXN];
  size_t n;
  size_t bound[MAXTOK + 2]; /* head boundaries according to the reference tokeniser */
  vf_event ev[MAXTOK + 1];  /* reference event per head (ptr = offset from stream start, stored as pointer) */
  size_t nheads;            /* complete decodable heads */
  bool ends_bad;            /* followed by a reserved/unsupported initial byte */
  bool ends_partial;        /* stream ends inside a head/payload */
} S;

/* reference tokenisation of the whole stream */
static void tokenise(void) {
  S.nheads = 0;
  S.ends_bad = S.ends_partial = false;
  size_t p = 0;
  S.bound[0] = 0;
  while (p < S.n && S.nheads < MAXTOK) {
    rhead h;
    int r = ref_head(S.b, S.n, p, &h);
    if (r == RH_BAD) { S.ends_bad = true; break; }
    if (r == RH_NEED) { S.ends_partial = true; break; }
    vf_expected_event(S.b, p, &h, &S.ev[S.nheads]);
    if (S.ev[S.nheads].ptr) S.ev[S.nheads].ptr = (const uint8_t*)(uintptr_t)(S.ev[S.nheads].ptr - (S.b + p)); /* offset inside the item */
    p += (size_t)h.full;
    S.bound[++S.nheads] = p;
  }
}
static int boundary_index(size_t c) {
  for (size_t i = 0; i <= S.nheads; i++)
    if (S.bound[i] == c) return (int)i;
  return -1;
}

/* one real decoder call on the bytes [c, c+b) placed flush against the guard page, judged against the reference */
static void call_decoder(size_t c, size_t b, memo_t* m) {
  uint8_t* p = vf_guard_put(S.b + c, b);
  vf_rec rec;
  vf_rec_reset(&rec);
  struct cbor_decoder_result r = cbor_stream_decode(p, b, &vf_rec_callbacks, &rec);
  vf_cnt(K_DECODER_CALLS, 1);
  vf_cnt(VC_TRACES, 1);
  m->has = true;
  m->status = (uint8_t)r.status;
  m->read = r.read;
  m->required = r.required;
  int bi = boundary_index(c);
  if (bi < 0) {
    vf_fail(NULL, "client reached offset %zu which is not an item boundary of the stream", c);
    return;
  }
  rhead h;
  int hr = ref_head(S.b + c, b, 0, &h);
  if (hr == RH_OK) {
    vf_cnt(K_FIN, 1);
    if (r.status != CBOR_DECODER_FINISHED || rec.ncalls != 1 || r.read != (size_t)h.full) {
      vf_fail(NULL, "at offset %zu with %zu bytes buffered the pending item (%zu bytes) is complete, but status=%d callbacks=%u read=%zu", c, b, (size_t)h.full, r.status, rec.ncalls, r.read);
      return;
    }
    vf_event e = rec.ev[0];
    if (e.ptr) e.ptr = (const uint8_t*)(uintptr_t)(e.ptr - p);
    if (!vf_event_equal(&e, &S.ev[bi])) vf_fail(NULL, "event delivered at offset %zu differs from the tokenisation of the stream (slot %s vs %s)", c, vf_slot_name[e.slot], vf_slot_name[S.ev[bi].slot]);
    m->ev = e;
  } else if (hr == RH_NEED) {
    vf_cnt(K_NED, 1);
    if (r.status != CBOR_DECODER_NEDATA || rec.ncalls || r.read) {
      vf_fail(NULL, "at offset %zu with %zu bytes buffered the pending item is incomplete, but status=%d callbacks=%u read=%zu", c, b, r.status, rec.ncalls, r.read);
      return;
    }
    if (!(r.required > b)) vf_fail("wait-not-progressing", "wait at offset %zu asks for %zu bytes with %zu already buffered: the client would wait forever", c, r.required, b);
    else if ((unsigned __int128)r.required > h.need) vf_fail(NULL, "wait at offset %zu asks for %zu bytes, the pending item needs only %" PRIu64, c, r.required, (uint64_t)h.need);
  } else {
    vf_cnt(K_ERR, 1);
    if (r.status != CBOR_DECODER_ERROR || rec.ncalls || r.read) vf_fail(NULL, "reserved byte at offset %zu: status=%d callbacks=%u read=%zu", c, r.status, rec.ncalls, r.read);
  }
}

/* explicit-state search of the client's state graph for the current stream */
static memo_t* memo;     /* (boundary index, b) */
static uint8_t* seen;    /* visited (bi, b, reqslot) */
static size_t memo_cap;
static void explore_stream(void) {
  tokenise();
  size_t n = S.n, nb = S.nheads + 1;
  size_t need = nb * (n + 1);
  if (need > memo_cap) {
    memo_cap = need * 2;
    memo = realloc(memo, memo_cap * sizeof *memo);
    seen = realloc(seen, memo_cap * 4);
  }
  memset(memo, 0, need * sizeof *memo);
  memset(seen, 0, need * 4);
  /* per boundary: the distinct `required` values that occur (slot 0 = not waiting) */
  static size_t reqv[MAXTOK + 2][4];
  static unsigned nreq[MAXTOK + 2];
  for (size_t i = 0; i < nb; i++) { nreq[i] = 1; reqv[i][0] = 0; }
  /* worklist */
  static struct st { uint16_t bi; uint16_t b; uint8_t rs; } *wl;
  static size_t wlcap;
  if (wlcap < need * 4 + 16) { wlcap = need * 4 + 16; wl = realloc(wl, wlcap * sizeof *wl); }
  size_t wh = 0, wt = 0;
  wl[wt++] = (struct st){0, 0, 0};
  seen[0] = 1;
  uint64_t states = 0, trans = 0;
  bool reached_end = false;
  while (wh < wt) {
    struct st s = wl[wh++];
    states++;
    size_t c = S.bound[s.bi], b = s.b, req = reqv[s.bi][s.rs];
    if (c + b == n && c == n) reached_end = true;
    /* fragment arrivals */
    for (size_t a = 1; c + b + a <= n; a++) {
      trans++;
      size_t idx = ((size_t)s.bi * (n + 1) + (b + a)) * 4 + s.rs;
      if (!seen[idx]) { seen[idx] = 1; wl[wt++] = (struct st){s.bi, (uint16_t)(b + a), s.rs}; }
    }
    /* the client runs: it calls the decoder unless it is still waiting for `req` bytes */
    if (b >= req) {
      memo_t* m = &memo[(size_t)s.bi * (n + 1) + b];
      if (!m->has) call_decoder(c, b, m);
      trans++;
      if (m->status == CBOR_DECODER_FINISHED && m->read > 0 && m->read <= b) {
        int nbi = boundary_index(c + m->read);
        if (nbi >= 0) {
          size_t idx = ((size_t)nbi * (n + 1) + (b - m->read)) * 4 + 0;
          if (!seen[idx]) { seen[idx] = 1; wl[wt++] = (struct st){(uint16_t)nbi, (uint16_t)(b - m->read), 0}; }
        }
      } else if (m->status == CBOR_DECODER_NEDATA && m->required > b) {
        vf_cnt(K_WAITS, 1);
        unsigned rs = 0;
        for (unsigned i = 1; i < nreq[s.bi]; i++)
          if (reqv[s.bi][i] == m->required) rs = i;
        if (!rs && nreq[s.bi] < 4) { rs = nreq[s.bi]++; reqv[s.bi][rs] = m->required; }
        if (rs) {
          size_t idx = ((size_t)s.bi * (n + 1) + b) * 4 + rs;
          if (!seen[idx]) { seen[idx] = 1; wl[wt++] = (struct st){s.bi, (uint16_t)b, (uint8_t)rs}; }
        } else
          vf_fail(NULL, "more than 3 distinct `required` values for one pending item");
      }
      /* ERROR, or a broken FINISHED/NEDATA (already reported): the client stops here */
    }
  }
  vf_cnt(VC_TRANS, trans);
  vf_cnt(VC_EVAL, states);
  if (S.n >= 6 && (vf_cnt_get_local(K_STREAMS) & 0xffff) == 21) {
    char hx[80];
    vf_hex(hx, sizeof hx, S.b, S.n < 36 ? S.n : 36);
    vf_sample("stream %s (%zu bytes, %zu heads%s): %" PRIu64 " client states, %" PRIu64 " transitions, all fragmentations deliver the reference events", hx, S.n, S.nheads, S.ends_bad ? " + reserved byte" : S.ends_partial ? ", truncated" : "", states, trans);
  }
  if (!S.ends_bad && !S.ends_partial) {
    vf_cnt(K_TERMINAL, 1);
    if (!reached_end) vf_fail(NULL, "stream ending on an item boundary is not delivered completely: state (c=n, b=0) unreachable");
  }
}

/* the real client loop over one explicit fragmentation (bit i of mask set = cut after byte i) - no memoisation */
static void brute_force(void) {
  tokenise();
  size_t n = S.n;
  if (n == 0 || n > brute_n) return;
  vf_cnt(K_BRUTE_STREAMS, 1);
  for (uint64_t mask = 0; mask < (1ull << (n - 1)); mask++) {
    vf_cnt(K_BRUTE_FRAGS, 1);
    size_t arrived = 0, c = 0, req = 0, nev = 0;
    bool stopped = false;
    while (!stopped) {
      /* client runs on what is buffered */
      while (arrived - c >= req) {
        size_t b = arrived - c;
        uint8_t* p = vf_guard_put(S.b + c, b);
        vf_rec rec;
        vf_rec_reset(&rec);
        struct cbor_decoder_result r = cbor_stream_decode(p, b, &vf_rec_callbacks, &rec);
        if (r.status == CBOR_DECODER_FINISHED) {
          if (rec.ncalls != 1 || r.read == 0 || r.read > b) { vf_fail(NULL, "fragmentation %#" PRIx64 ": FINISHED with %u callbacks, read %zu of %zu", mask, rec.ncalls, r.read, b); stopped = true; break; }
          vf_event e = rec.ev[0];
          if (e.ptr) e.ptr = (const uint8_t*)(uintptr_t)(e.ptr - p);
          if (nev >= S.nheads || !vf_event_equal(&e, &S.ev[nev])) { vf_fail(NULL, "fragmentation %#" PRIx64 ": event %zu differs from one-shot tokenisation", mask, nev); stopped = true; break; }
          nev++;
          c += r.read;
          req = 0;
        } else if (r.status == CBOR_DECODER_NEDATA) {
          if (r.required <= b) { vf_fail("wait-not-progressing", "fragmentation %#" PRIx64 ": wait for %zu bytes with %zu buffered", mask, r.required, b); stopped = true; break; }
          req = r.required;
        } else { stopped = true; break; }
      }
      if (stopped || arrived == n) break;
      /* next fragment: up to and including the next cut */
      size_t e = arrived;
      while (e < n - 1 && !(mask >> e & 1)) e++;
      arrived = e + 1;
    }
    if (nev != S.nheads) vf_fail(NULL, "fragmentation %#" PRIx64 ": %zu events delivered, one-shot tokenisation has %zu", mask, nev, S.nheads);
    if (!S.ends_bad && !S.ends_partial && c != n) vf_fail(NULL, "fragmentation %#" PRIx64 ": client consumed %zu of %zu bytes", mask, c, n);
  }
}

static void emit_stream(bool distinct) {
  vf_case("stream", S.b, S.n > 4096 ? 4096 : S.n);
  vf_cnt(K_STREAMS, 1);
  if (distinct) vf_cnt(VC_DISTINCT, 1);
  explore_stream();
}
/* all sequences of <= k decodable heads whose first two heads are (t1, t2), optionally followed by one reserved byte */
static void seq_rec(unsigned depth, unsigned k, const vf_tok* toks, size_t nt) {
  emit_stream(true);
  if (depth <= brute_k) brute_force();
  size_t n0 = S.n;
  for (size_t i = 0; i < nbad; i++) { /* stream + one reserved initial byte */
    S.b[n0] = BADT[i].b[0];
    S.n = n0 + 1;
    emit_stream(true);
    if (depth <= brute_k && i == 0) brute_force();
  }
  S.n = n0;
  /* stream + a definite string head whose declared length cannot be supplied (2^32-1, 2^63-1, 2^63, 2^63+2, 2^64-16, 2^64-1) + 0, 1 or 4 payload bytes: the
   * client must be told to wait, with a `required` above what is buffered, whatever the fragmentation - never handed an event or a read beyond the buffer */
  if (depth <= 2) {
    static const uint8_t HUGE_[][9] = {{0x5a, 0xff, 0xff, 0xff, 0xff}, {0x7b, 0x7f, 0xff, 0xff, 0xff, 0xff, 0xff, 0xff, 0xff}, {0x5b, 0x80, 0, 0, 0, 0, 0, 0, 0},
                                       {0x7b, 0x80, 0, 0, 0, 0, 0, 0, 2}, {0x5b, 0xff, 0xff, 0xff, 0xff, 0xff, 0xff, 0xff, 0xf0}, {0x7b, 0xff, 0xff, 0xff, 0xff, 0xff, 0xff, 0xff, 0xff}};
    static const unsigned PAY[] = {0, 1, 4};
    for (unsigned i = 0; i < 6; i++)
      for (unsigned pi = 0; pi < 3; pi++) {
        size_t hl = i == 0 ? 5 : 9;
        memcpy(S.b + n0, HUGE_[i], hl);
        for (unsigned q = 0; q < PAY[pi]; q++) S.b[n0 + hl + q] = (uint8_t)('p' + q);
        S.n = n0 + hl + PAY[pi];
        vf_cnt(K_HUGE_TAILS, 1);
        emit_stream(true);
        if (depth <= 1 && S.n <= brute_n) brute_force();
      }
    S.n = n0;
  }
  /* stream truncated inside its last head: ends_partial */
  if (depth >= 1) {
    size_t last = 0;
    tokenise();
    last = S.nheads ? S.bound[S.nheads - 1] : 0;
    for (size_t cut = last + 1; cut < n0; cut++) {
      S.n = cut;
      emit_stream(false);
    }
    S.n = n0;
  }
  if (depth >= k) return;
  for (size_t t = 0; t < nt; t++) {
    memcpy(S.b + n0, toks[t].b, toks[t].n);
    S.n = n0 + toks[t].n;
    seq_rec(depth + 1, k, toks, nt);
  }
  S.n = n0;
}
static void seq_unit(uint64_t u) {
  size_t t1 = u / nok, t2 = u % nok;
  S.n = 0;
  memcpy(S.b, OKT[t1].b, OKT[t1].n);
  S.n = OKT[t1].n;
  if (t2 == 0) { /* the one-head stream itself (and the empty stream once) */
    size_t keep = S.n;
    if (t1 == 0) { S.n = 0; emit_stream(true); S.n = keep; }
    unsigned k = 1;
    seq_rec(1, k, OKT, nok);
  }
  memcpy(S.b + S.n, OKT[t2].b, OKT[t2].n);
  S.n += OKT[t2].n;
  seq_rec(2, seq_k, OKT, nok);
}
/* long streams: items whose payload length sits on head-width boundaries, concatenated */
static void long_unit(uint64_t u) {
  static const size_t LEN[] = {23, 24, 255, 256, 300};
  size_t l1 = LEN[u % 5], kind = u / 5 % 2, l2 = LEN[(u / 10 + 1) % 5];
  S.n = 0;
  uint8_t mt = kind ? 3 : 2;
  S.n += ref_put_head(S.b, MAXN, S.n, mt, l1, 0);
  for (size_t i = 0; i < l1; i++) S.b[S.n++] = (uint8_t)('a' + i % 26);
  S.n += ref_put_head(S.b, MAXN, S.n, 4, 2, 0);
  S.n += ref_put_head(S.b, MAXN, S.n, (uint8_t)(5 - mt), l2, u >= 12 ? 16 : 0); /* the other string type, once non-minimal */
  for (size_t i = 0; i < l2; i++) S.b[S.n++] = (uint8_t)('A' + i % 26);
  S.b[S.n++] = 0x01;
  if (u % 3 == 0) S.b[S.n++] = 0xff;
  vf_cnt(K_LONG_STREAMS, 1);
  emit_stream(true);
}
static void unit(uint64_t u) {
  if (u < seq_units) { seq_unit(u); return; }
  long_unit(u - seq_units);
}
static uint64_t units(void) { return seq_units + long_units; }
static void init(void) {
  vf_enum_init();
  va_install();
  vf_guard_end();
  const vf_alphabet* a = &VF_SIGMA;
  /* zero-length strings and zero-count containers written with longer-than-needed heads: complete at their head, like the short forms */
  static const char* ZERO_HEX[] = {"5800", "590000", "5a00000000", "5b0000000000000000", "7800", "7a00000000", "7b0000000000000000", "9800", "9a00000000", "b90000", "bb0000000000000000", NULL};
  for (unsigned z = 0; ZERO_HEX[z]; z++) {
    vf_tok t;
    memset(&t, 0, sizeof t);
    t.n = vf_unhex(t.b, sizeof t.b, ZERO_HEX[z]);
    OKT[nok++] = t;
  }
  for (size_t i = 0; i < a->ntoks; i++) {
    rhead h;
    if (ref_head(a->toks[i].b, a->toks[i].n, 0, &h) == RH_OK) OKT[nok++] = a->toks[i];
    else if (nbad < 3 && (a->toks[i].b[0] == 0x1c || a->toks[i].b[0] == 0xf8 || a->toks[i].b[0] == 0xe0)) BADT[nbad++] = a->toks[i];
  }
  seq_k = vf_tier ? 4 : 3;
  brute_k = vf_tier ? 3 : 2;
  brute_n = vf_tier ? 16 : 12;
  seq_units = nok * nok;
  vf_extra("alphabet", "%zu decodable heads of Sigma (+ %zu reserved bytes as optional last byte)", nok, nbad);
}
static void replay(const char* tag, const uint8_t* d, size_t len) {
  (void)tag;
  memcpy(S.b, d, len > MAXN ? MAXN : len);
  S.n = len > MAXN ? MAXN : len;
  brute_n = 14;
  explore_stream();
  brute_force();
}
struct vf_check vf_the_check = {
    .property = "C09",
    .level = "model_checking",
    .rule = "streams = every sequence of <= k decodable heads of Sigma, each also followed by one of 3 reserved bytes and truncated at every offset inside its last head, and (sequences of <= 2 heads) followed by one of 6 string heads of unsatisfiable declared length (2^32-1 .. 2^64-1, both sides of 2^63) with 0, 1 or 4 payload bytes, "
            "plus 24 long streams (payloads of 23/24/255/256/300 bytes). For each stream the client's state graph (consumed, buffered, outstanding required) is searched to "
            "fixpoint: evaluations = states visited, transitions = fragment arrivals (every size) + client runs; the real decoder is called once per reachable (consumed, buffered) "
            "pair and judged against the reference tokenisation; traces_validated_against_impl = real decoder calls. Cross-check: the unmemoised client loop over all 2^(n-1) "
            "fragmentations of every stream of <= brute_k heads and <= brute_n bytes. distinct_nontrivial = distinct streams",
    .bounds = {"streams of <= 3 heads over the 60 decodable heads; brute force for <= 2 heads / <= 12 bytes", "streams of <= 4 heads; brute force for <= 3 heads / <= 16 bytes"},
    .assumptions = {"reference tokeniser ref_head / vf_expected_event are correct (pinned by ./vf setup)",
                    "the reduction from fragmentations to the (consumed, buffered, required) graph needs the decoder to be a pure function of the bytes it is given: checked "
                    "behaviourally by C08 and by the unmemoised brute-force pass here",
                    "client model: buffers arriving bytes, calls the decoder whenever at least `required` bytes are buffered, advances by `read` on FINISHED, stops on ERROR"},
    .counters = {[VC_EVAL] = "client_states_visited", [VC_DISTINCT] = "distinct_streams", [VC_TRANS] = "client_transitions", [VC_TRACES] = "real_decoder_calls",
                 [K_STREAMS] = "streams", [K_DECODER_CALLS] = "decoder_calls_in_state_search", [K_FIN] = "expected_FINISHED", [K_NED] = "expected_NEDATA", [K_ERR] = "expected_ERROR",
                 [K_BRUTE_STREAMS] = "brute_force_streams", [K_BRUTE_FRAGS] = "fragmentations_run_end_to_end", [K_LONG_STREAMS] = "long_streams", [K_HUGE_TAILS] = "streams_ending_in_a_string_head_of_unsatisfiable_length", [K_WAITS] = "wait_states",
                 [K_TERMINAL] = "streams_ending_on_item_boundary_fully_delivered"},
    .init = init, .units = units, .unit = unit, .replay = replay, .states_counter = VC_EVAL + 1};
