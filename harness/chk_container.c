/* C12 (explorer E2, specialised): arrays, maps and chunked strings behave as bounded / unbounded sequences.
 * Breadth-first search to FIXPOINT over (container kind, capacity, contents) - finite once the size bound is
 * fixed, so histories of any length inside the bound are covered.  Each transition executes the real call on a
 * container rebuilt by replaying the history that first reached the state; a plain C list is the model. */
#define _GNU_SOURCE
#include <inttypes.h>

#include "cbor.h"
#include "vf.h"
#include "vf_alloc.h"

enum { K_STATES = VC_USER, K_ACCEPTED, K_REFUSED, K_OOR, K_GETS, K_GROWTH_INSERTS, K_REALLOCS, K_REPLAYS };
enum { CK_DEF_ARRAY, CK_INDEF_ARRAY, CK_DEF_MAP, CK_INDEF_MAP, CK_BYTES, CK_TEXT, CK_NKINDS };
static const char* KIND_NAME[] = {"definite array", "indefinite array", "definite map", "indefinite map", "chunked byte string", "chunked text string"};
enum { OP_PUSH = 1, OP_SET, OP_REPLACE, OP_GET, OP_MAPADD, OP_CHUNK };
static const char* OP_NAME[] = {"", "push", "set", "replace", "get", "map_add", "add_chunk"};
#define NPOOL 3
#define MAXHIST 64

typedef struct { uint8_t op, i, x, y; } op_t;
/* index codes: 0..200 are themselves; 201.. are far out-of-range indices chosen so that index * stride wraps to a small value for the
 * strides a bounds check done in bytes could use (8 = pointer, 16 = pair, 4, 2): base + j with j = 0..2, plus the ends of the range */
static const uint64_t FAR_BASE[] = {1ull << 32, 1ull << 60, 1ull << 61, 1ull << 62, 1ull << 63, 3ull << 61, 5ull << 61, 7ull << 61, 15ull << 60, (1ull << 63) - 1, UINT64_MAX - 2};
#define NFAR (3 * (sizeof FAR_BASE / sizeof FAR_BASE[0]))
static size_t IDX(uint8_t code) { return code <= 200 ? code : (size_t)(FAR_BASE[(code - 201) / 3] + (code - 201) % 3); }
typedef struct {
  uint8_t n;        /* entries */
  uint8_t e[16];    /* arrays/chunks: item id ; maps: key id * 3 + value id */
} contents_t;
typedef struct {
  contents_t c;
  uint8_t nh;
  op_t h[MAXHIST];
} state_t;

static unsigned max_arr, max_map, max_cap_arr, max_cap_map;
static struct unitdesc { int kind; unsigned cap; } UNITS[64];
static unsigned nunits_;

/* the real objects of one execution */
static cbor_item_t* cont;
static cbor_item_t* pool[NPOOL];
static int cur_kind;
static unsigned cur_cap;
static contents_t model;

static void build_fresh(int kind, unsigned cap) {
  cur_kind = kind;
  cur_cap = cap;
  model.n = 0;
  switch (kind) {
    case CK_DEF_ARRAY: cont = cbor_new_definite_array(cap); break;
    case CK_INDEF_ARRAY: cont = cbor_new_indefinite_array(); break;
    case CK_DEF_MAP: cont = cbor_new_definite_map(cap); break;
    case CK_INDEF_MAP: cont = cbor_new_indefinite_map(); break;
    case CK_BYTES: cont = cbor_new_indefinite_bytestring(); break;
    default: cont = cbor_new_indefinite_string();
  }
  for (int j = 0; j < NPOOL; j++) {
    static const char* T[] = {"a", "bb", ""};
    pool[j] = kind == CK_BYTES ? cbor_build_bytestring((cbor_data)T[j], strlen(T[j])) : kind == CK_TEXT ? cbor_build_string(T[j]) : cbor_build_uint8((uint8_t)(j + 1));
  }
}
static void teardown(void) {
  cbor_decref(&cont);
  for (int j = 0; j < NPOOL; j++) cbor_decref(&pool[j]);
}
static size_t real_size(void) {
  switch (cur_kind) {
    case CK_DEF_ARRAY: case CK_INDEF_ARRAY: return cbor_array_size(cont);
    case CK_DEF_MAP: case CK_INDEF_MAP: return cbor_map_size(cont);
    case CK_BYTES: return cbor_bytestring_chunk_count(cont);
    default: return cbor_string_chunk_count(cont);
  }
}
static size_t real_allocated(void) {
  switch (cur_kind) {
    case CK_DEF_ARRAY: case CK_INDEF_ARRAY: return cbor_array_allocated(cont);
    case CK_DEF_MAP: case CK_INDEF_MAP: return cbor_map_allocated(cont);
    default: return ((struct cbor_indefinite_string_data*)cont->data)->chunk_capacity;
  }
}
/* compare the whole observable state with the model */
static void compare_state(const char* after) {
  size_t n = real_size(), al = real_allocated();
  if (n != model.n) {
    vf_fail(NULL, "%s: %s reports %zu entries, the list model has %u", after, KIND_NAME[cur_kind], n, model.n);
    return;
  }
  if (n > al) vf_fail(NULL, "%s: size %zu exceeds allocated capacity %zu", after, n, al);
  if ((cur_kind == CK_DEF_ARRAY || cur_kind == CK_DEF_MAP) && al != cur_cap) vf_fail(NULL, "%s: definite container's capacity changed from %u to %zu", after, cur_cap, al);
  unsigned occ[NPOOL] = {0};
  for (unsigned i = 0; i < model.n; i++) {
    if (cur_kind == CK_DEF_MAP || cur_kind == CK_INDEF_MAP) {
      struct cbor_pair* h = cbor_map_handle(cont);
      unsigned k = model.e[i] / 3, v = model.e[i] % 3;
      if (h[i].key != pool[k] || h[i].value != pool[v]) vf_fail(NULL, "%s: pair %u differs from the list model", after, i);
      occ[k]++;
      occ[v]++;
    } else {
      cbor_item_t** h = cur_kind == CK_BYTES ? cbor_bytestring_chunks_handle(cont) : cur_kind == CK_TEXT ? cbor_string_chunks_handle(cont) : cbor_array_handle(cont);
      if (h[i] != pool[model.e[i]]) vf_fail(NULL, "%s: entry %u differs from the list model", after, i);
      occ[model.e[i]]++;
    }
  }
  for (int j = 0; j < NPOOL; j++)
    if (cbor_refcount(pool[j]) != 1 + occ[j]) vf_fail(NULL, "%s: item %d has refcount %zu, it is referenced by the client once and by the container %u times", after, j, cbor_refcount(pool[j]), occ[j]);
}
/* apply op to the real container and to the model; judge = compare return value and state */
static void apply(op_t o, bool judge) {
  char what[96];
  snprintf(what, sizeof what, "%s(i=%zu, x=%u) on %s (cap %u) holding %u", OP_NAME[o.op], IDX(o.i), o.x, KIND_NAME[cur_kind], cur_cap, model.n);
  uint64_t img = 0, live0 = va.live;
  if (judge) img = va_image_hash();
  bool is_def = cur_kind == CK_DEF_ARRAY || cur_kind == CK_DEF_MAP;
  bool want = false, got = false;
  bool changes = false;
  /* marker 9: the allocator refuses the next request; an insertion that has to grow must then be refused and change nothing */
  bool refuse = (o.op == OP_PUSH && o.y == 9) || ((o.op == OP_MAPADD || o.op == OP_CHUNK) && o.i == 9);
  bool must_grow = !is_def && real_size() == real_allocated();
  if (refuse) va_schedule(VA_FAIL_ONE, va.requests, 0);
  if (refuse && must_grow) {
    got = o.op == OP_PUSH ? cbor_array_push(cont, pool[o.x]) : o.op == OP_MAPADD ? cbor_map_add(cont, (struct cbor_pair){.key = pool[o.x], .value = pool[o.y]})
          : cur_kind == CK_BYTES ? cbor_bytestring_add_chunk(cont, pool[o.x]) : cbor_string_add_chunk(cont, pool[o.x]);
    va_schedule(VA_NOFAULT, 0, 0);
    if (!judge) return;
    vf_cnt(K_REFUSED, 1);
    if (got) vf_fail(NULL, "%s succeeded although the allocator refused the growth", what);
    if (va.live != live0) vf_fail(NULL, "%s with refused growth changed the number of live blocks", what);
    if (va_image_hash() != img) vf_fail(NULL, "%s with refused growth changed the container or its items", what);
    compare_state(what);
    return;
  }
  switch (o.op) {
    case OP_PUSH:
      want = !is_def || model.n < cur_cap;
      got = cbor_array_push(cont, pool[o.x]);
      if (want) { model.e[model.n++] = o.x; changes = true; }
      break;
    case OP_SET:
      want = o.i < model.n || (o.i == model.n && (!is_def || model.n < cur_cap));
      got = cbor_array_set(cont, IDX(o.i), pool[o.x]);
      if (want) { if (o.i == model.n) model.n++; model.e[o.i] = o.x; changes = true; }
      break;
    case OP_REPLACE:
      want = o.i < model.n;
      got = cbor_array_replace(cont, IDX(o.i), pool[o.x]);
      if (want) { model.e[o.i] = o.x; changes = true; }
      break;
    case OP_GET: {
      want = o.i < model.n;
      cbor_item_t* r = cbor_array_get(cont, IDX(o.i));
      got = r != NULL;
      if (judge) vf_cnt(K_GETS, 1);
      if (r) {
        if (judge && want && r != pool[model.e[o.i]]) vf_fail(NULL, "%s returned the wrong item", what);
        if (judge && want && cbor_refcount(r) != 2 + ({unsigned c = 0; for (unsigned q = 0; q < model.n; q++) c += model.e[q] == model.e[o.i]; c;}) - 0)
          vf_fail(NULL, "%s: returned item has refcount %zu (a new reference must have been taken)", what, cbor_refcount(r));
        cbor_decref(&r); /* the client releases the reference it was handed */
      }
      break;
    }
    case OP_MAPADD:
      want = !is_def || model.n < cur_cap;
      got = cbor_map_add(cont, (struct cbor_pair){.key = pool[o.x], .value = pool[o.y]});
      if (want) { model.e[model.n++] = (uint8_t)(o.x * 3 + o.y); changes = true; }
      break;
    default:
      want = true;
      got = cur_kind == CK_BYTES ? cbor_bytestring_add_chunk(cont, pool[o.x]) : cbor_string_add_chunk(cont, pool[o.x]);
      model.e[model.n++] = o.x;
      changes = true;
  }
  va_schedule(VA_NOFAULT, 0, 0);
  if (!judge) return;
  if (got != want) vf_fail(o.op == OP_GET && !want ? "array-get-out-of-range" : NULL, "%s returned %s, the list model says %s", what, got ? "success" : "refusal", want ? "success" : "refusal");
  if (want) vf_cnt(K_ACCEPTED, 1); else { vf_cnt(K_REFUSED, 1); if (o.op != OP_PUSH && o.op != OP_MAPADD) vf_cnt(K_OOR, 1); }
  if (!changes) {
    if (va.live != live0) vf_fail(NULL, "%s changed the number of live blocks", what);
    if (va_image_hash() != img) vf_fail(NULL, "%s was refused / read-only but touched memory (byte image of the live blocks changed)", what);
  }
  compare_state(what);
}
static uint64_t ckey(const contents_t* c) {
  uint64_t k = c->n;
  for (unsigned i = 0; i < c->n; i++) k = k * 11 + c->e[i] + 1;
  return k;
}
static void publish(const state_t* s, op_t o) {
  uint8_t d[8 + 4 * (MAXHIST + 1)];
  d[0] = (uint8_t)cur_kind; d[1] = (uint8_t)cur_cap; d[2] = s->nh; d[3] = 0;
  memcpy(d + 4, s->h, 4 * s->nh);
  memcpy(d + 4 + 4 * s->nh, &o, 4);
  vf_case("hist", d, 4 + 4 * (s->nh + 1u));
}

static void bfs(int kind, unsigned cap) {
  bool is_map = kind == CK_DEF_MAP || kind == CK_INDEF_MAP, is_arr = kind == CK_DEF_ARRAY || kind == CK_INDEF_ARRAY;
  unsigned bound = is_map ? max_map : max_arr;
  /* hash set of visited contents + queue */
  size_t qcap = 1 << 17;
  state_t* q = malloc(qcap * sizeof *q);
  size_t hcap = 1 << 19;
  uint64_t* hs = calloc(hcap, 8);
  size_t qh = 0, qt = 0;
  memset(&q[0], 0, sizeof q[0]);
  qt = 1;
  hs[ckey(&q[0].c) % hcap] = ckey(&q[0].c) + 1;
  while (qh < qt) {
    state_t s = q[qh++];
    vf_cnt(K_STATES, 1);
    vf_state(vf_mix(vf_mix((uint64_t)kind, cap), ckey(&s.c)));
    /* alphabet of this state */
    op_t ops[512];
    unsigned nops = 0;
    if (kind == CK_INDEF_ARRAY) ops[nops++] = (op_t){OP_PUSH, 0, 1, 9};
    if (kind == CK_INDEF_MAP) ops[nops++] = (op_t){OP_MAPADD, 9, 1, 2};
    if (kind == CK_BYTES || kind == CK_TEXT) ops[nops++] = (op_t){OP_CHUNK, 9, 1, 0};
    if (is_arr) {
      for (uint8_t x = 0; x < NPOOL; x++) ops[nops++] = (op_t){OP_PUSH, 0, x, 0};
      for (uint8_t i = 0; i <= s.c.n + 2; i++) {
        for (uint8_t x = 0; x < NPOOL; x++) {
          ops[nops++] = (op_t){OP_SET, i, x, 0};
          ops[nops++] = (op_t){OP_REPLACE, i, x, 0};
        }
        ops[nops++] = (op_t){OP_GET, i, 0, 0};
      }
      ops[nops++] = (op_t){OP_GET, 200, 0, 0};
      ops[nops++] = (op_t){OP_REPLACE, 200, 1, 0};
      ops[nops++] = (op_t){OP_SET, 200, 1, 0};
      for (unsigned f = 0; f < NFAR; f++) {
        ops[nops++] = (op_t){OP_GET, (uint8_t)(201 + f), 0, 0};
        ops[nops++] = (op_t){OP_REPLACE, (uint8_t)(201 + f), 1, 0};
        ops[nops++] = (op_t){OP_SET, (uint8_t)(201 + f), 2, 0};
      }
    } else if (is_map) {
      for (uint8_t x = 0; x < NPOOL; x++)
        for (uint8_t y = 0; y < NPOOL; y++) ops[nops++] = (op_t){OP_MAPADD, 0, x, y};
    } else
      for (uint8_t x = 0; x < NPOOL; x++) ops[nops++] = (op_t){OP_CHUNK, 0, x, 0};
    for (unsigned k = 0; k < nops; k++) {
      publish(&s, ops[k]);
      va_reset();
      build_fresh(kind, cap);
      for (unsigned j = 0; j < s.nh; j++) apply(s.h[j], false);
      vf_cnt(K_REPLAYS, 1);
      /* replay determinism: the state rebuilt from the stored history must be the stored state */
      if (ckey(&model) != ckey(&s.c)) vf_fail(NULL, "replay of a stored history reached different contents (harness non-determinism)");
      compare_state("after replaying the history");
      apply(ops[k], true);
      vf_cnt(VC_EVAL, 1);
      vf_cnt(VC_TRANS, 1);
      vf_cnt(VC_TRACES, 1);
      contents_t nc = model;
      teardown();
      if (va.live) {
        vf_fail(NULL, "%" PRIu64 " blocks live after releasing container and items", va.live);
        va_release_all();
      }
      if (va.errors) vf_fail(NULL, "allocator protocol violated: %s", va.last_error);
      if (nc.n > bound) continue; /* outside the size bound: transition judged, successor not expanded */
      uint64_t key = ckey(&nc) + 1;
      size_t hi = (key * 0x9E3779B97F4A7C15ull) % hcap;
      bool known = false;
      while (hs[hi]) {
        if (hs[hi] == key) { known = true; break; }
        hi = (hi + 1) % hcap;
      }
      if (known) continue;
      hs[hi] = key;
      if (qt == qcap) { qcap *= 2; q = realloc(q, qcap * sizeof *q); }
      if (s.nh >= MAXHIST - 1) { vf_not_exhaustive("history length cap reached in C12 BFS"); continue; }
      if ((qt & 0x7ff) == 33) vf_sample("%s (capacity %u): history of %u calls ending in %s(%u,%u,%u) reaches contents of %u entries", KIND_NAME[kind], cap, s.nh + 1, OP_NAME[ops[k].op], ops[k].i, ops[k].x, ops[k].y, nc.n);
      q[qt] = s;
      q[qt].c = nc;
      q[qt].h[q[qt].nh++] = ops[k];
      qt++;
      vf_cnt(VC_DISTINCT, 1);
    }
  }
  free(q);
  free(hs);
}

/* growth clause: n insertions into an indefinite container cost O(log n) reallocations; capacity never shrinks */
static const unsigned GROW_N[] = {4096, 140000, (1u << 20) + 1}; /* the last one in the thorough tier only */
static void growth(int kind, unsigned ni) {
  unsigned n = GROW_N[ni];
  va_cap = 1ull << 27;
  uint8_t d[4] = {(uint8_t)kind, 0xff, (uint8_t)ni, 0};
  vf_case("growth", d, 4);
  va_reset();
  build_fresh(kind, 0);
  uint64_t r0 = va.reallocs;
  size_t lastcap = 0;
  /* big runs use two items only, so that each is referenced more than 2^16 times: reference counts are compared with the model at the end */
  unsigned md = n > 100000 ? 2 : 3;
  uint64_t occ[NPOOL] = {0};
  for (unsigned i = 0; i < n; i++) {
    bool ok;
    switch (kind) {
      case CK_INDEF_ARRAY: ok = cbor_array_push(cont, pool[i % md]); occ[i % md]++; break;
      case CK_INDEF_MAP: ok = cbor_map_add(cont, (struct cbor_pair){.key = pool[i % md], .value = pool[(i + 1) % md]}); occ[i % md]++; occ[(i + 1) % md]++; break;
      case CK_BYTES: ok = cbor_bytestring_add_chunk(cont, pool[i % md]); occ[i % md]++; break;
      default: ok = cbor_string_add_chunk(cont, pool[i % md]); occ[i % md]++;
    }
    vf_cnt(K_GROWTH_INSERTS, 1);
    vf_cnt(VC_EVAL, 1);
    if (!ok) { vf_fail(NULL, "insertion %u into %s refused", i, KIND_NAME[kind]); break; }
    size_t al = real_allocated();
    if (al < lastcap) vf_fail(NULL, "capacity of %s shrank from %zu to %zu", KIND_NAME[kind], lastcap, al);
    if (real_size() != i + 1 || real_size() > al) vf_fail(NULL, "after %u insertions size=%zu allocated=%zu", i + 1, real_size(), al);
    lastcap = al;
  }
  uint64_t re = va.reallocs - r0;
  vf_cnt(K_REALLOCS, re);
  unsigned lg = 0;
  while ((1u << lg) < n) lg++;
  if (re > lg + 2) vf_fail(NULL, "%u insertions into %s cost %" PRIu64 " reallocations (more than log2(n)+2 = %u): growth is not geometric", n, KIND_NAME[kind], re, lg + 2);
  /* contents */
  for (unsigned i = 0; i < n; i += 97) {
    cbor_item_t* e = kind == CK_INDEF_ARRAY ? cbor_array_handle(cont)[i] : kind == CK_INDEF_MAP ? cbor_map_handle(cont)[i].key : kind == CK_BYTES ? cbor_bytestring_chunks_handle(cont)[i] : cbor_string_chunks_handle(cont)[i];
    if (e != pool[i % md]) vf_fail(NULL, "entry %u of the grown %s is wrong", i, KIND_NAME[kind]);
  }
  for (int j = 0; j < NPOOL; j++)
    if (cbor_refcount(pool[j]) != 1 + occ[j]) vf_fail(NULL, "after %u insertions into %s item %d has refcount %zu; it is referenced once by the client and %" PRIu64 " times by the container", n, KIND_NAME[kind], j, cbor_refcount(pool[j]), occ[j]);
  teardown();
  if (va.live) { vf_fail(NULL, "leak after growth run"); va_release_all(); }
}

static void unit(uint64_t u) {
  va_cap = 1 << 24;
  if (u < nunits_) { bfs(UNITS[u].kind, UNITS[u].cap); return; }
  static const int GK[] = {CK_INDEF_ARRAY, CK_INDEF_MAP, CK_BYTES, CK_TEXT};
  growth(GK[(u - nunits_) % 4], (unsigned)((u - nunits_) / 4));
}
static uint64_t units(void) { return nunits_ + 4 * (vf_tier ? 3 : 2); }
static void init(void) {
  va_install();
  max_arr = vf_tier ? 8 : 6;
  max_map = vf_tier ? 5 : 4;
  max_cap_arr = 8;
  max_cap_map = vf_tier ? 6 : 5;
  for (unsigned c = 0; c <= max_cap_arr; c++) UNITS[nunits_++] = (struct unitdesc){CK_DEF_ARRAY, c};
  UNITS[nunits_++] = (struct unitdesc){CK_INDEF_ARRAY, 0};
  for (unsigned c = 0; c <= max_cap_map; c++) UNITS[nunits_++] = (struct unitdesc){CK_DEF_MAP, c};
  UNITS[nunits_++] = (struct unitdesc){CK_INDEF_MAP, 0};
  UNITS[nunits_++] = (struct unitdesc){CK_BYTES, 0};
  UNITS[nunits_++] = (struct unitdesc){CK_TEXT, 0};
}
static void replay(const char* tag, const uint8_t* d, size_t len) {
  if (!strcmp(tag, "growth")) { growth(d[0], len > 2 && d[2] < 3 ? d[2] : 0); return; }
  if (len < 8) return;
  va_cap = 1 << 24;
  va_reset();
  build_fresh(d[0], d[1]);
  unsigned nh = d[2];
  fprintf(stderr, "%s, capacity %u; history:", KIND_NAME[d[0]], d[1]);
  for (unsigned j = 0; j <= nh && 4 + 4 * (j + 1) <= len; j++) {
    op_t o;
    memcpy(&o, d + 4 + 4 * j, 4);
    fprintf(stderr, " %s(%zu,%u,%u)", OP_NAME[o.op], IDX(o.i), o.x, o.y);
    apply(o, j == nh);
  }
  fprintf(stderr, "\n");
  teardown();
}
struct vf_check vf_the_check = {
    .property = "C12",
    .level = "model_checking",
    .rule = "explicit-state BFS to fixpoint over (kind, capacity, contents) for definite arrays (capacity 0..8), the indefinite array, definite maps (capacity 0..5/6), the "
            "indefinite map and chunked byte/text strings, with a pool of 3 distinguishable items; alphabet: push x, set i x, replace i x, get i for every i in 0..size+2 and i = 200, "
            "map_add (k, v), add_chunk c; a state is expanded only while its size is within the bound, every transition out of it is executed on a container rebuilt by replaying "
            "the history that first reached the state. states = distinct (kind, capacity, contents), transitions = real calls judged against the list model; distinct_nontrivial = "
            "states discovered beyond the empty ones. Growth clause: 4096 and 140 000 (thorough: also 2^20+1) insertions per indefinite kind with reallocations counted by the allocator. Out-of-range indices: size+1, size+2, 200 and 33 far indices (2^32, 2^60..2^63, k*2^61, SIZE_MAX-2.. each +0..2: the values at which an index scaled to bytes wraps)",
    .bounds = {"arrays/chunk lists up to 6 entries, maps up to 4 pairs: fixpoint", "arrays/chunk lists up to 8 entries, maps up to 5 pairs: fixpoint"},
    .assumptions = {"contents are compared by item identity through the handle getters; refcounts of the 3 pool items must equal 1 + occurrences",
                    "a refused or read-only operation must leave the byte image of every live block unchanged (this is how 'without touching memory' is observed), and an out-of-range "
                    "access is additionally an ASan report (heap) or a NULL dereference",
                    "geometric growth is judged by the number of reallocations for n insertions (<= log2(n)+2), not by an exact capacity sequence",
                    "merging states with equal (kind, capacity, contents) is sound because no operation removes entries: capacity of indefinite containers is a function of the size reached"},
    .counters = {[VC_EVAL] = "transitions_executed", [VC_DISTINCT] = "states_discovered", [VC_TRANS] = "transitions", [VC_TRACES] = "executed_on_implementation",
                 [K_STATES] = "states_expanded", [K_ACCEPTED] = "operations_accepted_by_model", [K_REFUSED] = "operations_refused_by_model", [K_OOR] = "out_of_range_index_operations",
                 [K_GETS] = "get_calls", [K_GROWTH_INSERTS] = "growth_insertions", [K_REALLOCS] = "reallocations_in_growth_runs", [K_REPLAYS] = "history_replays"},
    .init = init, .units = units, .unit = unit, .replay = replay, .state_bits = 18};
