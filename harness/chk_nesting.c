/* C19: the nesting limit is exact for the configured value L (this binary is built once per L, from a cmake
 * configuration of /repo with -DCBOR_MAX_STACK_SIZE=L) and native stack use is bounded.
 * Enumerated: every sequence of container openers of depth <= L+1 (for small L), periodic opener patterns at depths
 * L-1, L, L+1 and 4L (every L), each completed to a well-formed item; the reference decoder run with the same L
 * says accept / MEMERROR-at-position; the whole client pipeline runs on a thread with a painted stack. */
#define _GNU_SOURCE
#include <inttypes.h>
#include <pthread.h>
#include <sys/mman.h>

#include "cbor.h"
#include "vf.h"
#include "vf_alloc.h"
#include "vf_ref.h"
#include "vf_walk.h"

#define L_CFG ((size_t)CBOR_MAX_STACK_SIZE)
enum { K_ACCEPTED = VC_USER, K_REJECTED, K_AT_LIMIT, K_OVER_LIMIT, K_DEEP4L, K_STACK_MEASURED, K_MAX_STACK, K_MAX_STACK_REJECT, K_PATTERNS, K_FULLSEQ, K_WIDE };

/* openers: tag, definite array(1), indefinite array, definite map (nested item is the key), definite map (nested item is the value),
 * indefinite map (key), indefinite map (value); innermost optionally a chunked byte / text string */
enum { O_TAG, O_DARR, O_IARR, O_DMAPK, O_DMAPV, O_IMAPK, O_IMAPV, O_NOPEN };
static const char* ONAME[] = {"tag", "[1]", "[_", "{k", "{v", "{_k", "{_v"};
static uint8_t* buf;
static size_t bufcap;

/* innermost item: 0 integer, 1 chunked byte string, 2 chunked text string (both open one more level), 3 empty definite array, 4 empty definite map,
 * 5 empty definite array with a one-byte count (none of these three is ever pushed: they need no free level), 6 empty indefinite array, 7 empty indefinite map
 * (both open one more level) */
#define N_INNER 8
static const int INNER_LEVELS[N_INNER] = {0, 1, 1, 0, 0, 0, 1, 1};
static size_t build_input(const uint8_t* seq, size_t depth, int innermost) {
  size_t need = depth * 4 + 16;
  if (need > bufcap) { bufcap = need * 2; buf = realloc(buf, bufcap); }
  size_t o = 0;
  for (size_t i = 0; i < depth; i++) {
    switch (seq[i]) {
      case O_TAG: buf[o++] = 0xc1; break;
      case O_DARR: buf[o++] = 0x81; break;
      case O_IARR: buf[o++] = 0x9f; break;
      case O_DMAPK: buf[o++] = 0xa1; break;
      case O_DMAPV: buf[o++] = 0xa1; buf[o++] = 0x00; break;
      case O_IMAPK: buf[o++] = 0xbf; break;
      default: buf[o++] = 0xbf; buf[o++] = 0x00;
    }
  }
  switch (innermost) {
    case 0: buf[o++] = 0x05; break;
    case 1: case 2: buf[o++] = innermost == 1 ? 0x5f : 0x7f; buf[o++] = innermost == 1 ? 0x41 : 0x61; buf[o++] = 'x'; buf[o++] = 0xff; break;
    case 3: buf[o++] = 0x80; break;
    case 4: buf[o++] = 0xa0; break;
    case 5: buf[o++] = 0x98; buf[o++] = 0x00; break;
    case 6: buf[o++] = 0x9f; buf[o++] = 0xff; break;
    default: buf[o++] = 0xbf; buf[o++] = 0xff;
  }
  for (size_t i = depth; i-- > 0;) {
    switch (seq[i]) {
      case O_IARR: buf[o++] = 0xff; break;
      case O_DMAPK: buf[o++] = 0x00; break;
      case O_IMAPK: buf[o++] = 0x00; buf[o++] = 0xff; break;
      case O_IMAPV: buf[o++] = 0xff; break;
      default: break;
    }
  }
  return o;
}

/* pipeline on a dedicated thread with a painted stack */
#define STK_SZ ((size_t)((256u << 10) + 1024u * (size_t)CBOR_MAX_STACK_SIZE)) /* 4x the budget for the deepest accepted input; a guard page below */
static unsigned char* stk_base;
static struct job {
  const uint8_t* in; size_t n; size_t noncanon;
  bool accepted; int code; size_t pos, read;
  rnode* walked;
  bool pipeline_ok; char msg[200];
} J;
static FILE* devnull;
static void* pipeline(void* arg) {
  (void)arg;
  struct cbor_load_result res;
  memset(&res, 0xAB, sizeof res);
  cbor_item_t* it = cbor_load(J.in, J.n, &res);
  J.accepted = it != NULL;
  J.code = (int)res.error.code;
  J.pos = res.error.position;
  J.read = res.read;
  J.pipeline_ok = true;
  if (it) {
    cbor_describe(it, devnull);
    size_t sz = cbor_serialized_size(it);
    unsigned char* out = malloc(sz + 1);
    size_t w = cbor_serialize(it, out, sz);
    if (w != sz || sz != J.n - J.noncanon) { J.pipeline_ok = false; snprintf(J.msg, sizeof J.msg, "serialize wrote %zu, size %zu, input %zu", w, sz, J.n); }
    else if (!J.noncanon && memcmp(out, J.in, sz)) { J.pipeline_ok = false; snprintf(J.msg, sizeof J.msg, "serialization differs from the (canonical) input"); }
    free(out);
    cbor_item_t* c = cbor_copy(it);
    if (!c) { J.pipeline_ok = false; snprintf(J.msg, sizeof J.msg, "cbor_copy failed"); }
    else cbor_decref(&c);
    cbor_decref(&it);
  }
  return NULL;
}
static size_t run_on_painted_stack(void) {
  if (!stk_base) {
    stk_base = mmap(NULL, STK_SZ + 4096, PROT_READ | PROT_WRITE, MAP_PRIVATE | MAP_ANONYMOUS | MAP_NORESERVE, -1, 0);
    if (stk_base == MAP_FAILED) abort();
    mprotect(stk_base, 4096, PROT_NONE); /* exhaustion = SIGSEGV attributed to the case */
    memset(stk_base + 4096, 0xA5, STK_SZ);
  }
  pthread_attr_t at;
  pthread_attr_init(&at);
  pthread_attr_setstack(&at, stk_base + 4096, STK_SZ);
  pthread_t th;
  if (pthread_create(&th, &at, pipeline, NULL)) abort();
  pthread_join(th, NULL);
  pthread_attr_destroy(&at);
  /* high-water mark: lowest touched byte */
  unsigned char* p = stk_base + 4096;
  unsigned char* top = p + STK_SZ;
  while (p < top && *p == 0xA5) p += 8;
  size_t used = (size_t)(top - p);
  /* repaint what was used */
  memset(top - used - 64 > stk_base + 4096 ? top - used - 64 : stk_base + 4096, 0xA5, used + 64 < STK_SZ ? used + 64 : STK_SZ);
  return used;
}

static vf_sb why;
static size_t hw_at_limit; /* largest high-water seen for accepted inputs (this worker) */
static void judge(const uint8_t* seq, size_t depth, int innermost, bool distinct) {
  size_t n = build_input(seq, depth, innermost);
  uint8_t d[64];
  size_t dl = 0;
  uint64_t dd = depth;
  memcpy(d, &dd, 8);
  d[8] = (uint8_t)innermost;
  dl = 9;
  for (size_t i = 0; i < depth && i < 48; i++) d[dl++] = seq[i];
  vf_case("nest", d, dl);
  vf_cnt(VC_EVAL, 1);
  vf_cnt(VC_TRACES, 1);
  if (distinct) vf_cnt(VC_DISTINCT, 1);
  size_t levels = depth + (size_t)INNER_LEVELS[innermost];
  rdecode rd;
  ref_arena_reset();
  ref_decode(buf, n, L_CFG, 1ull << 30, NULL, &rd);
  vf_cnt(VC_TRANS, rd.heads);
  vf_state(vf_mix(levels <= L_CFG, vf_mix(levels > 64 ? 64 : levels, seq[0] * 8u + (depth > 1 ? seq[depth - 1] : 0))));
  /* self-check of the oracle: accept iff the nesting never exceeds L */
  if (rd.ok != (levels <= L_CFG)) vf_fail(NULL, "oracle self-check: reference with L=%zu %s an input nested %zu deep", L_CFG, rd.ok ? "accepts" : "rejects", levels);
  va_reset();
  uint8_t* in = malloc(n);
  memcpy(in, buf, n);
  J.in = in;
  J.n = n;
  J.noncanon = innermost == 5 ? 1 : 0; /* 98 00 re-serializes as 80 */
  size_t used = run_on_painted_stack();
  vf_cnt(K_STACK_MEASURED, 1);
  /* second, unmeasured pass on the main thread: walk the tree for the comparison (the walker's own recursion must not count) */
  cbor_item_t* again = NULL;
  J.walked = NULL;
  if (J.accepted) {
    struct cbor_load_result r2;
    again = cbor_load(in, n, &r2);
    if (again) J.walked = vf_walk(again);
  }
  if ((levels == L_CFG || levels == L_CFG + 1) && (vf_cnt_get_local(VC_EVAL) & 0xff) == 7)
    vf_sample("L=%zu: %zu levels (outermost opener %s, innermost %s) -> %s%s, native stack %zu bytes", L_CFG, levels, ONAME[seq[0]], innermost == 0 ? "integer" : innermost <= 2 ? "chunked string" : innermost <= 5 ? "empty definite container" : "empty indefinite container", J.accepted ? "accepted" : "rejected with code ",
              J.accepted ? "" : (J.code == 4 ? "MEMERROR" : "?"), used);
  if (levels == L_CFG) vf_cnt(K_AT_LIMIT, 1);
  if (levels == L_CFG + 1) vf_cnt(K_OVER_LIMIT, 1);
  if (levels >= 4 * L_CFG) vf_cnt(K_DEEP4L, 1);
  if (rd.ok) {
    vf_cnt(K_ACCEPTED, 1);
    if (!J.accepted) vf_fail(NULL, "input nested %zu deep (limit %zu) rejected with code %d at %zu", levels, L_CFG, J.code, J.pos);
    else {
      vf_sb_reset(&why);
      if (!J.walked || !ref_equal(rd.tree, J.walked, RC_DEF_FULL, &why)) vf_fail(NULL, "tree of a %zu-deep input differs: %s", levels, J.walked ? why.s : "second load failed");
      if (J.read != n) vf_fail(NULL, "read %zu of %zu", J.read, n);
      if (!J.pipeline_ok) vf_fail(NULL, "pipeline on a %zu-deep tree: %s", levels, J.msg);
    }
#ifdef VF_STACK_BUDGET
    size_t budget = 16384 + 256 * levels;
    if (used > budget) vf_fail(NULL, "load/describe/serialize/copy/release of a %zu-deep tree used %zu bytes of native stack (budget 16 KiB + 256 B per level = %zu)", levels, used, budget);
    if (used > hw_at_limit) hw_at_limit = used;
    if (used > vf_cnt_get_local(K_MAX_STACK)) vf_cnt(K_MAX_STACK, used - vf_cnt_get_local(K_MAX_STACK));
#endif
  } else {
    vf_cnt(K_REJECTED, 1);
    if (J.accepted) vf_fail(NULL, "input nested %zu deep accepted although the configured limit is %zu", levels, L_CFG);
    else {
      if (J.code != rd.verd[0].code || J.pos != rd.verd[0].pos)
        vf_fail(NULL, "input nested %zu deep (limit %zu): reported code %d at %zu, expected MEMERROR (%d) at %zu = just past the head that would open level %zu", levels, L_CFG, J.code,
                J.pos, rd.verd[0].code, rd.verd[0].pos, L_CFG + 1);
      if (va.live) vf_fail(NULL, "%" PRIu64 " blocks leaked by the rejected deep input", va.live);
    }
#ifdef VF_STACK_BUDGET
    /* rejecting deep input must not need more stack than accepting the deepest allowed input */
    size_t budget = 16384 + 256 * L_CFG;
    if (used > budget) vf_fail(NULL, "rejecting a %zu-deep input used %zu bytes of native stack (budget %zu)", levels, used, budget);
    if (used > vf_cnt_get_local(K_MAX_STACK_REJECT)) vf_cnt(K_MAX_STACK_REJECT, used - vf_cnt_get_local(K_MAX_STACK_REJECT));
#endif
  }
  (void)used;
  if (again) cbor_decref(&again);
  free(in);
  if (va.live) va_release_all();
  if (va.errors) vf_fail(NULL, "allocator protocol violated: %s", va.last_error);
}

/* wide, shallow trees: the native stack needed by load / describe / serialize / copy / release is bounded by the nesting depth, not by how many
 * entries one level holds. One level (legal for every L >= 1) of 1000 and of 65 540 entries, four container kinds */
static const unsigned WIDE_N[] = {1000, 65540};
static void wide_case(unsigned kind, unsigned ni) {
  unsigned cnt = WIDE_N[ni];
  uint8_t d[2] = {(uint8_t)kind, (uint8_t)ni};
  vf_case("wide", d, 2);
  vf_cnt(VC_EVAL, 1);
  vf_cnt(VC_TRACES, 1);
  vf_cnt(VC_DISTINCT, 1);
  vf_cnt(K_WIDE, 1);
  uint8_t* in = malloc(2 * (size_t)cnt + 16);
  size_t n = 0;
  if (kind == 0) { n += ref_put_head(in, 16, 0, 4, cnt, 0); for (unsigned i = 0; i < cnt; i++) in[n++] = (uint8_t)(i % 24); }
  else if (kind == 1) { in[n++] = 0x9f; for (unsigned i = 0; i < cnt; i++) in[n++] = (uint8_t)(i % 24); in[n++] = 0xff; }
  else if (kind == 2) { n += ref_put_head(in, 16, 0, 5, cnt, 0); for (unsigned i = 0; i < cnt; i++) { in[n++] = (uint8_t)(i % 24); in[n++] = 0xf6; } }
  else { in[n++] = 0x7f; for (unsigned i = 0; i < cnt; i++) in[n++] = 0x60; in[n++] = 0xff; }
  va_reset();
  J.in = in;
  J.n = n;
  J.noncanon = 0;
  size_t used = run_on_painted_stack();
  vf_cnt(K_STACK_MEASURED, 1);
  if (!J.accepted) vf_fail(NULL, "a one-level container of %u entries (kind %u) is rejected with code %d at %zu", cnt, kind, J.code, J.pos);
  else {
    if (J.read != n) vf_fail(NULL, "read %zu of %zu", J.read, n);
    if (!J.pipeline_ok) vf_fail(NULL, "pipeline on a one-level container of %u entries: %s", cnt, J.msg);
  }
#ifdef VF_STACK_BUDGET
  size_t budget = 16384 + 256 * 1;
  if (used > budget) vf_fail(NULL, "load/describe/serialize/copy/release of a ONE-level container of %u entries used %zu bytes of native stack (budget %zu: stack use must follow the depth, not the width)", cnt, used, budget);
  if (used > vf_cnt_get_local(K_MAX_STACK)) vf_cnt(K_MAX_STACK, used - vf_cnt_get_local(K_MAX_STACK));
#endif
  (void)used;
  free(in);
  if (va.live) va_release_all();
}
static size_t DEPTHS[4];
static uint64_t full_units, pat_units;
static unsigned full_maxdepth;
/* every opener sequence of depth <= L+1 whose first opener is `first` */
static void full_unit(unsigned first) {
  uint8_t seq[16];
  for (unsigned depth = 1; depth <= full_maxdepth; depth++) {
    uint64_t total = 1;
    for (unsigned i = 1; i < depth; i++) total *= O_NOPEN;
    for (uint64_t r = 0; r < total; r++) {
      seq[0] = (uint8_t)first;
      uint64_t rr = r;
      for (unsigned i = 1; i < depth; i++) { seq[i] = (uint8_t)(rr % O_NOPEN); rr /= O_NOPEN; }
      vf_cnt(K_FULLSEQ, 1);
      for (int inner = 0; inner < N_INNER; inner++) judge(seq, depth, inner, true);
    }
  }
}
/* periodic patterns (period 1 or 2) at depths L-1, L, L+1, 4L */
static void pattern_unit(unsigned p) {
  unsigned a = p / (O_NOPEN + 1), b = p % (O_NOPEN + 1); /* b == O_NOPEN: period 1 */
  if (a >= O_NOPEN) return;
  for (int di = 0; di < 4; di++) {
    size_t depth = DEPTHS[di];
    if (depth == 0) continue;
    uint8_t* seq = malloc(depth);
    for (size_t i = 0; i < depth; i++) seq[i] = (uint8_t)((i & 1) && b < O_NOPEN ? b : a);
    vf_cnt(K_PATTERNS, 1);
    for (int inner = 0; inner < N_INNER; inner++) {
      /* an innermost item that opens a level of its own is also judged one level shallower so that it lands exactly on the limit */
      judge(seq, depth, inner, true);
      if (INNER_LEVELS[inner] && depth > 1) judge(seq, depth - 1, inner, true);
    }
    free(seq);
  }
}
static void unit(uint64_t u) {
  va_cap = 1ull << 30;
  if (u < full_units) { full_unit((unsigned)u); return; }
  u -= full_units;
  if (u < pat_units) { pattern_unit((unsigned)u); return; }
  u -= pat_units;
  wide_case((unsigned)(u / 2), (unsigned)(u % 2));
}
static uint64_t units(void) { return full_units + pat_units + 8; }
static void init(void) {
  va_install();
  devnull = fopen("/dev/null", "w");
  DEPTHS[0] = L_CFG > 1 ? L_CFG - 1 : 0;
  DEPTHS[1] = L_CFG;
  DEPTHS[2] = L_CFG + 1;
  DEPTHS[3] = 4 * L_CFG;
  full_maxdepth = L_CFG <= 3 ? (unsigned)L_CFG + 1 : (L_CFG <= 8 ? 4 : 3);
  full_units = O_NOPEN;
  pat_units = O_NOPEN * (O_NOPEN + 1);
  vf_extra("configured_L", "%zu (from the cmake-generated configuration.h of this build)", L_CFG);
  vf_extra("full_sequences_to_depth", "%u", full_maxdepth);
#ifdef VF_STACK_BUDGET
  vf_extra("stack_budget", "16384 + 256 * depth bytes, measured on a painted pthread stack (256 KiB + 1 KiB per configured level) with a guard page");
#else
  vf_extra("stack_budget", "not judged in this (sanitizer) build; stack exhaustion would still hit the guard page");
#endif
}
static void replay(const char* tag, const uint8_t* d, size_t len) {
  if (!strcmp(tag, "wide")) { va_cap = 1ull << 30; if (len >= 2) wide_case(d[0] % 4, d[1] % 2); return; }
  if (len < 9) return;
  uint64_t depth;
  memcpy(&depth, d, 8);
  uint8_t* seq = malloc(depth + 1);
  size_t have = len - 9;
  for (size_t i = 0; i < depth; i++) seq[i] = i < have ? d[9 + i] : (have >= 2 ? d[9 + (i & 1)] : d[9]); /* periodic patterns repeat */
  fprintf(stderr, "L=%zu depth=%" PRIu64 " innermost=%d openers:", L_CFG, depth, d[8]);
  for (size_t i = 0; i < depth && i < 12; i++) fprintf(stderr, " %s", ONAME[seq[i]]);
  fprintf(stderr, "%s\n", depth > 12 ? " ..." : "");
  va_cap = 1ull << 30;
  judge(seq, depth, d[8], false);
  free(seq);
}
struct vf_check vf_the_check = {
    .property = "C19",
    .level = "model_checking",
    .rule = "one build per configured L (cmake -DCBOR_MAX_STACK_SIZE=L, generated configuration.h). Inputs: every sequence of container openers {tag, definite array, indefinite array, definite map in "
            "key / value position, indefinite map in key / value position} up to depth L+1 (small L; depth 3-4 otherwise) and all 56 opener patterns of period <= 2 at depths L-1, L, L+1 and 4L, "
            "each with one of 8 innermost items (integer; chunked byte / text string; empty definite array / map in two head widths, which need no free level; empty indefinite array / map, which open one), completed to a well-formed item. Oracle: the reference pushdown run with the same L (accept and equal tree / "
            "MEMERROR just past the head that opens level L+1); the load-describe-size-serialize-copy-release pipeline runs on a thread with a painted stack whose high-water mark is measured. "
            "states = distinct (within limit, depth class, outer/inner opener) classes; transitions = heads consumed by the reference; distinct_nontrivial = distinct inputs",
    .bounds = {"L in {1, 2, 3, 8}", "L in {1, 2, 3, 8, 64, 2048}"},
    .assumptions = {"reference decoder parameterised by L (pinned by ./vf setup, which also checks its limit behaviour for L = 1..4)",
                    "stack budget (gcc -O2 builds only): 16 KiB + 256 B per nesting level for accepted inputs, 16 KiB + 256 B * L for rejected ones - about 3x the measured cost (48-82 B per level) so "
                    "that compiler variation does not raise alarms while anything super-linear or an extra frame per level does",
                    "a guard page below the measuring stack turns exhaustion into a SIGSEGV attributed to the case"},
    .counters = {[VC_EVAL] = "inputs_judged", [VC_DISTINCT] = "distinct_inputs", [VC_TRANS] = "reference_heads_consumed", [VC_TRACES] = "executed_on_implementation",
                 [K_ACCEPTED] = "within_limit", [K_REJECTED] = "beyond_limit", [K_AT_LIMIT] = "exactly_at_limit", [K_OVER_LIMIT] = "one_level_over_limit", [K_DEEP4L] = "depth_4L_or_more",
                 [K_STACK_MEASURED] = "stack_measurements", [K_WIDE] = "wide_one_level_containers", [K_MAX_STACK] = "sum_over_workers_of_max_stack_bytes_accepted", [K_MAX_STACK_REJECT] = "sum_over_workers_of_max_stack_bytes_rejected",
                 [K_PATTERNS] = "periodic_patterns", [K_FULLSEQ] = "complete_opener_sequences"},
    .init = init, .units = units, .unit = unit, .replay = replay};
