/* C16: code point count of definite text strings = strict RFC 3629 scalar count, or 0.
 * (a) product-automaton search: BFS over pairs (state of the library's DFA driven through the real
 *     _cbor_unicode_decode, state of the reference validator) with all 256 byte transitions from every
 *     reachable pair, to fixpoint -> agreement for inputs of EVERY length, given that the counting loop
 *     is the plain fold over that step function, which
 * (b) checks end to end: every byte sequence of length <= 3 (4 thorough) through cbor_string_set_handle,
 *     cbor_build_stringn and cbor_load, plus boundary-scalar sequences with injected fault bytes. */
#define _GNU_SOURCE
#include <inttypes.h>

#include "cbor.h"
#include "vf.h"
#include "vf_alloc.h"
#include "vf_rec.h"
#include "vf_ref.h"

extern uint32_t _cbor_unicode_decode(uint32_t* state, uint32_t* codep, uint32_t byte) __attribute__((weak));

enum { K_PAIRS = VC_USER, K_PTRANS, K_SETHANDLE, K_BUILD, K_LOAD, K_VALID, K_INVALID, K_FAULTS, K_LONG, K_SWEEP, K_COPY, K_CHUNK };

/* ---- incremental reference validator (RFC 3629 section 4 ranges) */
typedef struct { uint8_t need, lo, hi; bool rej; } rst;
static rst rstep(rst s, uint8_t b) {
  if (s.rej) return s;
  if (s.need == 0) {
    if (b <= 0x7f) return (rst){0, 0, 0, false};
    if (b >= 0xc2 && b <= 0xdf) return (rst){1, 0x80, 0xbf, false};
    if (b == 0xe0) return (rst){2, 0xa0, 0xbf, false};
    if ((b >= 0xe1 && b <= 0xec) || b == 0xee || b == 0xef) return (rst){2, 0x80, 0xbf, false};
    if (b == 0xed) return (rst){2, 0x80, 0x9f, false};
    if (b == 0xf0) return (rst){3, 0x90, 0xbf, false};
    if (b >= 0xf1 && b <= 0xf3) return (rst){3, 0x80, 0xbf, false};
    if (b == 0xf4) return (rst){3, 0x80, 0x8f, false};
    return (rst){0, 0, 0, true};
  }
  if (b < s.lo || b > s.hi) return (rst){0, 0, 0, true};
  if (s.need == 1) return (rst){0, 0, 0, false};
  return (rst){(uint8_t)(s.need - 1), 0x80, 0xbf, false};
}
static uint32_t rkey(rst s) { return s.rej ? 0xffffff : (uint32_t)s.need << 16 | (uint32_t)s.lo << 8 | s.hi; }

static vf_sb sb;
static unsigned nmax;
static uint64_t product_units = 1, bn_units = 65537, fault_units = 16, sweep_units = 64;

static void product_search(void) {
  vf_case("product", "", 0);
  if (!_cbor_unicode_decode) {
    vf_not_exhaustive("library does not export _cbor_unicode_decode: unbounded-length product search skipped, only the bounded enumeration was run");
    return;
  }
  struct pr { uint32_t lib; rst ref; } q[4096];
  size_t qh = 0, qt = 0;
  q[qt++] = (struct pr){0, (rst){0, 0, 0, false}};
  vf_state(vf_mix(0, rkey(q[0].ref)));
  uint64_t seen[4096];
  size_t nseen = 0;
  seen[nseen++] = vf_mix(0, rkey(q[0].ref));
  while (qh < qt) {
    struct pr cur = q[qh++];
    vf_cnt(K_PAIRS, 1);
    for (unsigned b = 0; b < 256; b++) {
      uint32_t st = cur.lib, cp = 0;
      uint32_t r = _cbor_unicode_decode(&st, &cp, b);
      rst rr = rstep(cur.ref, (uint8_t)b);
      vf_cnt(K_PTRANS, 1);
      vf_cnt(VC_TRANS, 1);
      vf_cnt(VC_EVAL, 1);
      vf_cnt(VC_TRACES, 1);
      bool lib_rej = r == 1, lib_acc = r == 0;
      if (st != r) vf_fail(NULL, "_cbor_unicode_decode returned %u but left state %u", r, st);
      if (lib_rej != rr.rej) {
        vf_fail(NULL, "after a prefix reaching (lib state %u, ref need=%u range %02x..%02x), byte %02x: library %s, RFC 3629 %s", cur.lib, cur.ref.need, cur.ref.lo,
                cur.ref.hi, b, lib_rej ? "rejects" : "continues", rr.rej ? "rejects" : "continues");
        continue;
      }
      if (!lib_rej && lib_acc != (rr.need == 0)) {
        vf_fail(NULL, "after (lib state %u), byte %02x: library %s a scalar boundary, RFC 3629 %s", cur.lib, b, lib_acc ? "reports" : "does not report", rr.need == 0 ? "does" : "does not");
        continue;
      }
      if (lib_rej) continue; /* absorbing for the counting loop */
      uint64_t k = vf_mix(st, rkey(rr));
      bool known = false;
      for (size_t i = 0; i < nseen; i++)
        if (seen[i] == k) known = true;
      if (!known && nseen < 4096 && qt < 4096) {
        seen[nseen++] = k;
        q[qt++] = (struct pr){st, rr};
        vf_state(k);
      }
    }
  }
  vf_cnt(VC_DISTINCT, nseen);
  vf_sample("product automaton: %zu reachable (library DFA state, RFC 3629 validator state) pairs, all 256 transitions from each agree on reject / scalar boundary", nseen);
}

static cbor_item_t* reuse_item;
static unsigned char* reuse_handle;
static bool bulk4; /* inside the thorough tier's sweep of all 4-byte sequences: paths (4) and (5) are skipped there */

/* one byte sequence through the three API paths */
static void judge_text(const uint8_t* s, size_t n, bool all_paths, bool distinct) {
  vf_case("text", s, n);
  vf_cnt(VC_EVAL, 1);
  vf_cnt(VC_TRACES, 1);
  if (distinct) vf_cnt(VC_DISTINCT, 1);
  int64_t rc = ref_utf8_count(s, n);
  size_t want = rc < 0 ? 0 : (size_t)rc;
  vf_cnt(rc < 0 ? K_INVALID : K_VALID, 1);
  /* (1) cbor_string_set_handle on an existing definite string, at every alignment of the handle for longer strings */
  if (n > 4096) { /* long strings: one attach, on a handle of their own */
    unsigned char* h = malloc(n);
    memcpy(h, s, n);
    cbor_string_set_handle(reuse_item, h, n);
    vf_cnt(K_SETHANDLE, 1);
    if (cbor_string_codepoint_count(reuse_item) != want)
      vf_fail(NULL, "cbor_string_set_handle on a %zu-byte text: codepoint count %zu, RFC 3629 count %s%zu", n, cbor_string_codepoint_count(reuse_item), rc < 0 ? "(invalid) " : "", want);
    if (cbor_string_length(reuse_item) != n || memcmp(h, s, n)) vf_fail(NULL, "cbor_string_set_handle changed length or content");
    cbor_string_set_handle(reuse_item, reuse_handle, 0);
    free(h);
  } else if (n <= 100) {
    for (unsigned off = 0; off < (n >= 4 ? 8u : 1u); off++) {
      unsigned char* h = reuse_handle + off;
      memcpy(h, s, n);
      cbor_string_set_handle(reuse_item, h, n);
      vf_cnt(K_SETHANDLE, 1);
      if (cbor_string_codepoint_count(reuse_item) != want)
        vf_fail(NULL, "cbor_string_set_handle (handle at offset %u of its block): codepoint count %zu, RFC 3629 count %s%zu", off, cbor_string_codepoint_count(reuse_item), rc < 0 ? "(invalid) " : "", want);
      if (cbor_string_length(reuse_item) != n || cbor_string_handle(reuse_item) != h || memcmp(h, s, n))
        vf_fail(NULL, "cbor_string_set_handle changed length or content");
    }
    cbor_string_set_handle(reuse_item, reuse_handle, 0);
  }
  if (!all_paths) return;
  /* (2) cbor_build_stringn */
  va_reset();
  uint64_t live0 = va.live; /* the reusable item and its handle stay live */
  uint8_t* in = vf_guard_put(s, n);
  cbor_item_t* it = cbor_build_stringn((const char*)in, n);
  vf_cnt(K_BUILD, 1);
  if (!it) vf_fail(NULL, "cbor_build_stringn failed");
  else {
    if (cbor_string_codepoint_count(it) != want) vf_fail(NULL, "cbor_build_stringn: codepoint count %zu, expected %zu", cbor_string_codepoint_count(it), want);
    if (cbor_string_length(it) != n || (n && memcmp(cbor_string_handle(it), s, n))) vf_fail(NULL, "cbor_build_stringn changed length or content");
    cbor_decref(&it);
  }
  /* (3) cbor_load of a definite text string head followed by the bytes */
  static uint8_t enc[9 + (1 << 18)];
  size_t hl = ref_put_head(enc, sizeof enc, 0, 3, n, 0);
  memcpy(enc + hl, s, n);
  in = vf_guard_put(enc, hl + n);
  struct cbor_load_result res;
  it = cbor_load(in, hl + n, &res);
  vf_cnt(K_LOAD, 1);
  if (!it) vf_fail(NULL, "cbor_load rejected a text string because of its content (code %d at %zu)", res.error.code, res.error.position);
  else {
    if (!cbor_isa_string(it) || !cbor_string_is_definite(it)) vf_fail(NULL, "decoded item is not a definite text string");
    else {
      if (cbor_string_codepoint_count(it) != want) vf_fail(NULL, "cbor_load: codepoint count %zu, expected %zu", cbor_string_codepoint_count(it), want);
      if (cbor_string_length(it) != n || (n && memcmp(cbor_string_handle(it), s, n))) vf_fail(NULL, "cbor_load changed length or content of the text");
      /* (4) the library's own duplicate of that string is again a definite text string holding these bytes */
      if (n <= 3 || !bulk4) {
        cbor_item_t* c = cbor_copy(it);
        vf_cnt(K_COPY, 1);
        if (!c) vf_fail(NULL, "cbor_copy of a decoded text string failed");
        else {
          if (cbor_string_codepoint_count(c) != want) vf_fail(NULL, "cbor_copy of the decoded string: codepoint count %zu, expected %zu", cbor_string_codepoint_count(c), want);
          if (cbor_string_length(c) != n || (n && memcmp(cbor_string_handle(c), s, n))) vf_fail(NULL, "cbor_copy changed length or content of the text");
          cbor_decref(&c);
        }
      }
    }
    cbor_decref(&it);
  }
  /* (5) the same bytes decoded as a chunk of an indefinite text string: every chunk is a definite text string of its own */
  if (n <= 3 || !bulk4) {
    static uint8_t enc2[11 + (1 << 18)];
    enc2[0] = 0x7f;
    memcpy(enc2 + 1, enc, hl + n);
    enc2[1 + hl + n] = 0xff;
    in = vf_guard_put(enc2, hl + n + 2);
    it = cbor_load(in, hl + n + 2, &res);
    vf_cnt(K_CHUNK, 1);
    if (!it) vf_fail(NULL, "cbor_load rejected a chunked text string because of its content (code %d at %zu)", res.error.code, res.error.position);
    else {
      if (!cbor_isa_string(it) || !cbor_string_is_indefinite(it) || cbor_string_chunk_count(it) != 1) vf_fail(NULL, "decoded item is not a chunked text string of one chunk");
      else {
        cbor_item_t* ch = cbor_string_chunks_handle(it)[0];
        if (cbor_string_codepoint_count(ch) != want) vf_fail(NULL, "chunk decoded by cbor_load: codepoint count %zu, expected %zu", cbor_string_codepoint_count(ch), want);
        if (cbor_string_length(ch) != n || (n && memcmp(cbor_string_handle(ch), s, n))) vf_fail(NULL, "cbor_load changed length or content of a text chunk");
      }
      cbor_decref(&it);
    }
  }
  if (va.live != live0) vf_fail(NULL, "leak: %" PRIu64 " blocks", va.live - live0);
}
static void bn_unit(uint64_t u) {
  uint8_t b[4];
  if (u == 65536) {
    judge_text(b, 0, true, true);
    for (unsigned a = 0; a < 256; a++) {
      b[0] = (uint8_t)a;
      judge_text(b, 1, true, true);
    }
    return;
  }
  b[0] = (uint8_t)(u >> 8);
  b[1] = (uint8_t)u;
  judge_text(b, 2, true, true);
  for (unsigned c = 0; c < 256; c++) {
    b[2] = (uint8_t)c;
    judge_text(b, 3, true, true);
    if (nmax >= 4)
      for (unsigned d = 0; d < 256; d++) {
        b[3] = (uint8_t)d;
        /* all three paths when the string starts a multi-byte sequence somewhere; set_handle always */
        bulk4 = true;
        judge_text(b, 4, (b[0] | b[1] | b[2]) >= 0x80, true);
        bulk4 = false;
      }
  }
}
static size_t put_scalar(uint8_t* o, uint32_t cp) {
  if (cp < 0x80) { o[0] = (uint8_t)cp; return 1; }
  if (cp < 0x800) { o[0] = (uint8_t)(0xC0 | cp >> 6); o[1] = (uint8_t)(0x80 | (cp & 63)); return 2; }
  if (cp < 0x10000) { o[0] = (uint8_t)(0xE0 | cp >> 12); o[1] = (uint8_t)(0x80 | ((cp >> 6) & 63)); o[2] = (uint8_t)(0x80 | (cp & 63)); return 3; }
  o[0] = (uint8_t)(0xF0 | cp >> 18); o[1] = (uint8_t)(0x80 | ((cp >> 12) & 63)); o[2] = (uint8_t)(0x80 | ((cp >> 6) & 63)); o[3] = (uint8_t)(0x80 | (cp & 63));
  return 4;
}
static const uint32_t SC[10] = {0x0, 0x7F, 0x80, 0x7FF, 0x800, 0xD7FF, 0xE000, 0xFFFF, 0x10000, 0x10FFFF};
static const uint8_t FB[] = {0x00, 0x7f, 0x80, 0x8f, 0x90, 0x9f, 0xa0, 0xbf, 0xc0, 0xc1, 0xc2, 0xdf, 0xe0, 0xed, 0xef, 0xf0, 0xf4, 0xf5, 0xf8, 0xff};
static void fault_unit(uint64_t u) {
  unsigned idx = 0;
  for (unsigned cnt = 1; cnt <= 3; cnt++) {
    unsigned tot = cnt == 1 ? 10 : cnt == 2 ? 100 : 1000;
    for (unsigned r = 0; r < tot; r++, idx++) {
      if (idx % fault_units != u) continue;
      uint8_t s[16], m[20];
      size_t n = 0;
      unsigned rr = r;
      for (unsigned i = 0; i < cnt; i++) {
        n += put_scalar(s + n, SC[rr % 10]);
        rr /= 10;
      }
      judge_text(s, n, true, true);
      for (size_t p = 0; p <= n; p++)
        for (unsigned f = 0; f < sizeof FB; f++) {
          vf_cnt(K_FAULTS, 1);
          memcpy(m, s, p);
          m[p] = FB[f];
          memcpy(m + p + 1, s + p, n - p);
          judge_text(m, n + 1, true, false); /* inserted */
          if (p < n) {
            memcpy(m, s, n);
            m[p] = FB[f];
            judge_text(m, n, true, false); /* overwritten */
          }
        }
      for (size_t p = 0; p < n; p++) { /* one byte deleted / truncated */
        memcpy(m, s, p);
        memcpy(m + p, s + p + 1, n - p - 1);
        judge_text(m, n - 1, true, false);
      }
    }
  }
  /* long strings: a valid 3000-byte text with one fault at a far position (count loop over many chunks of the DFA) */
  if (u == 0) {
    static uint8_t big[4096];
    size_t n = 0;
    while (n < 3000) n += put_scalar(big + n, SC[2 + (n % 8)]);
    vf_cnt(K_LONG, 1);
    judge_text(big, n, true, true);
    big[n - 1] = 0xc0;
    judge_text(big, n, true, true);
    /* texts longer than any block a counting loop might work in: a 2-, 3- or 4-byte scalar straddling every power of two from 4 KiB to 128 KiB at
     * every phase, in otherwise plain ASCII; and the same texts cut inside their last scalar */
    static uint8_t lng[(1 << 17) + 128];
    for (unsigned k = 12; k <= 17; k++) {
      size_t B = (size_t)1 << k;
      for (unsigned w = 2; w <= 4; w++)
        for (unsigned back = 1; back < w; back++) {
          size_t len = B + 64;
          memset(lng, 'a', len);
          (void)put_scalar(lng + B - back, w == 2 ? 0xe9 : w == 3 ? 0x20ac : 0x1f600);
          vf_cnt(K_LONG, 1);
          judge_text(lng, len, true, true);
          /* ending right inside that scalar: invalid */
          judge_text(lng, B, true, false);
        }
    }
  }
}
/* position sweep: every string ASCII^p . probe . ASCII^s (and two probes with an ASCII gap) up to a total length that spans several
 * machine words - the counting loop must be the plain fold over the DFA at every offset, length and alignment (word-at-a-time or
 * vectorised shortcuts are position dependent) */
static const char* PROBE_HEX[] = {"c3a9", "e282ac", "f09f9880", "dfbf", "efbfbf", "f48fbfbf", "ff", "80", "bf", "c0", "c1", "c3", "e282", "f09f98", "eda080", "edbfbf", "e08080", "f08080",
                                  "f4908080", "f8888080", "c328", "e228a1", "e28228", "f0288cbc", "f09028bc", "c080", "e0a080", "f0908080", "7f", "00", NULL};
static void sweep_unit(uint64_t u) {
  unsigned maxlen = vf_tier ? 40 : 26;
  uint8_t probes[32][4];
  size_t plen[32], np = 0;
  for (; PROBE_HEX[np]; np++) plen[np] = vf_unhex(probes[np], 4, PROBE_HEX[np]);
  uint8_t sbuf[128];
  unsigned idx = 0;
  for (unsigned p = 0; p <= maxlen; p++)
    for (size_t k = 0; k < np; k++, idx++) {
      if (idx % sweep_units != u) continue;
      for (unsigned sfx = 0; p + plen[k] + sfx <= maxlen; sfx++) {
        size_t n = 0;
        for (unsigned i = 0; i < p; i++) sbuf[n++] = (uint8_t)('a' + i % 26);
        memcpy(sbuf + n, probes[k], plen[k]);
        n += plen[k];
        for (unsigned i = 0; i < sfx; i++) sbuf[n++] = (uint8_t)('A' + i % 26);
        vf_cnt(K_SWEEP, 1);
        judge_text(sbuf, n, true, true);
      }
      /* a second probe after an ASCII gap */
      for (size_t k2 = 0; k2 < np; k2 += 3)
        for (unsigned gap = 0; p + plen[k] + gap + plen[k2] <= (maxlen < 24 ? maxlen : 24); gap++) {
          size_t n = 0;
          for (unsigned i = 0; i < p; i++) sbuf[n++] = 'x';
          memcpy(sbuf + n, probes[k], plen[k]);
          n += plen[k];
          for (unsigned i = 0; i < gap; i++) sbuf[n++] = 'y';
          memcpy(sbuf + n, probes[k2], plen[k2]);
          n += plen[k2];
          vf_cnt(K_SWEEP, 1);
          judge_text(sbuf, n, true, false);
        }
    }
}
static void unit(uint64_t u) {
  va_cap = 1 << 20;
  if (u < product_units) { product_search(); return; }
  if (u >= product_units + bn_units + fault_units) { sweep_unit(u - product_units - bn_units - fault_units); return; }
  u -= product_units;
  if (u < bn_units) { bn_unit(u); return; }
  u -= bn_units;
  fault_unit(u);
}
static uint64_t units(void) { return product_units + bn_units + fault_units + sweep_units; }
static void init(void) {
  va_install();
  vf_guard_end();
  nmax = vf_tier ? 4 : 3;
  va_cap = 1 << 20;
  reuse_item = cbor_new_definite_string();
  reuse_handle = va_malloc(128);
  cbor_string_set_handle(reuse_item, reuse_handle, 0);
}
static void replay(const char* tag, const uint8_t* d, size_t len) {
  if (!strcmp(tag, "product")) { product_search(); return; }
  int64_t rc = ref_utf8_count(d, len);
  fprintf(stderr, "RFC 3629 validator: %s, %" PRId64 " scalars\n", rc < 0 ? "invalid" : "valid", rc);
  judge_text(d, len, true, false);
  (void)sb;
}
struct vf_check vf_the_check = {
    .property = "C16",
    .level = "model_checking",
    .rule = "(a) explicit-state search of the product of the library's UTF-8 DFA (stepped through the real _cbor_unicode_decode) and an RFC 3629 range validator: all 256 "
            "transitions from every reachable state pair, to fixpoint (states = reachable pairs, transitions = pair x byte steps executed on the implementation); "
            "(b) every byte sequence of length <= n through cbor_string_set_handle, cbor_build_stringn, cbor_load, cbor_copy of the decoded string and cbor_load as a chunk of an indefinite text string (the last two not inside the thorough tier's sweep of all 4-byte sequences), plus all sequences of <= 3 scalars over a 10-scalar boundary "
            "alphabet with one fault byte of 20 classes inserted / overwritten at every position and every single-byte deletion; (c) position sweep: every string "
            "ASCII^p . probe . ASCII^s for 30 probes (valid 2/3/4-byte scalars, stray / truncated / overlong / surrogate / out-of-range sequences) and every p, s with total length <= 26 (40 thorough), "
            "plus two probes separated by every ASCII gap (total <= 24), each through all three API paths and, for set_handle, at all 8 alignments of the handle. distinct_nontrivial = reachable "
            "product pairs + distinct byte sequences of parts (b) and (c)",
    .bounds = {"product automaton to fixpoint (unbounded input length); all byte sequences of length <= 3", "product automaton to fixpoint; all byte sequences of length <= 4 (2^32)"},
    .assumptions = {"RFC 3629 validator in this file / vf_ref.c:ref_utf8_count is correct (pinned against all 1 112 064 scalar values and a boundary table by ./vf setup)",
                    "the unbounded-length claim of (a) relies on the counting loop being the plain left fold over _cbor_unicode_decode that increments on ACCEPT and stops on REJECT; "
                    "(b) tests exactly that loop end to end on every short sequence and on a 3000-byte string, and (c) at every offset / length / handle alignment up to several machine words, "
                    "because a word-at-a-time or vectorised shortcut in front of the DFA loop is position dependent (seeded change C16 is exactly that)",
                    "indefinite strings do not aggregate their chunks' counts; the property speaks of definite strings only"},
    .counters = {[VC_EVAL] = "cases_judged", [VC_DISTINCT] = "distinct_nontrivial", [VC_TRANS] = "product_transitions", [VC_TRACES] = "executed_on_implementation",
                 [K_PAIRS] = "product_states_expanded", [K_PTRANS] = "product_transitions_checked", [K_SETHANDLE] = "set_handle_calls", [K_BUILD] = "build_stringn_calls",
                 [K_LOAD] = "cbor_load_calls", [K_COPY] = "copies_of_decoded_strings", [K_CHUNK] = "strings_decoded_as_chunks", [K_VALID] = "valid_utf8_inputs", [K_INVALID] = "invalid_utf8_inputs", [K_FAULTS] = "fault_injections", [K_LONG] = "long_strings", [K_SWEEP] = "position_sweep_strings"},
    .init = init, .units = units, .unit = unit, .replay = replay};
