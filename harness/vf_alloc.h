/* Instrumenting allocator installed through cbor_set_allocs (the library's own seam).
 * One implementation, several personalities (counting, fault-injecting, tagging, capping). */
#ifndef VF_ALLOC_H
#define VF_ALLOC_H
#include <stddef.h>
#include <stdint.h>

#define VA_LIVE_MAGIC 0xA11C0DE5A11C0DE5ull
#define VA_DEAD_MAGIC 0xDEADDEADDEADDEADull

typedef struct va_hdr {
  uint64_t magic;
  uint64_t size;
  uint64_t serial;
  struct va_hdr *prev, *next;
  uint64_t pad;
} va_hdr; /* 48 bytes: keeps 16-byte alignment of the user block */

struct va_stats {
  uint64_t requests;   /* malloc + realloc calls (the unit of fault schedules) */
  uint64_t mallocs, reallocs, frees, free_null;
  uint64_t refused;    /* requests answered NULL (fault or cap) */
  uint64_t inplace_reallocs; /* in-place mode: reallocs answered with the same pointer */
  uint64_t cap_refused;
  uint64_t live;       /* live blocks */
  uint64_t live_bytes;
  uint64_t max_request;
  uint64_t errors;     /* protocol violations: foreign / dead / double-freed pointer */
  uint64_t zero_size;
  char last_error[160];
};
extern struct va_stats va;

/* fault schedule: request indices are 0-based over `requests` since va_reset() */
enum { VA_NOFAULT = 0, VA_FAIL_ONE, VA_FAIL_FROM, VA_FAIL_PAIR };
void va_schedule(int mode, uint64_t k, uint64_t k2);
extern int va_inplace; /* 0 realloc always moves (default), 1 / 2 spare capacity: see vf_alloc.c */
extern uint64_t va_cap; /* refuse any single request larger than this (default 1 GiB) */
/* optional trace of request sizes (for C20 / growth checks) */
extern uint64_t va_trace[256];
extern unsigned va_ntrace;

void va_install(void); /* cbor_set_allocs(va_malloc, va_realloc, va_free) */
void va_reset(void);   /* forget stats and schedule; does NOT free live blocks (use va_release_all) */
void va_release_all(void); /* free every live block (cleanup after a failed case) */
void* va_malloc(size_t n);
void* va_realloc(void* p, size_t n);
void va_free(void* p);
int va_is_live(const void* p);           /* p is the user pointer of a live block of ours */
size_t va_block_size(const void* p);
/* iterate over live blocks in allocation order */
va_hdr* va_first(void);
static inline va_hdr* va_next(va_hdr* h) { return h->next; }
static inline void* va_user(va_hdr* h) { return (void*)(h + 1); }
/* hash of (serial-independent) byte image of all live blocks: addresses, sizes and contents */
uint64_t va_image_hash(void);
uint64_t va_serial(void);                       /* serial number the next block will get */
uint64_t va_image_hash_before(uint64_t serial); /* image of the live blocks allocated before that serial */
#endif
