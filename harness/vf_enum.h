/* Shared enumerators (index-addressable, no randomness):
 *  - B(n): every byte string of length <= n
 *  - pushdown DFS over a head alphabet: every sequence of <= k item heads none of whose proper
 *    head-prefixes is already decided (accepted / rejected) by the reference decoder
 *  - neighbours of a sequence (overwrite initial bytes, insert/delete break, delete a head) */
#ifndef VF_ENUM_H
#define VF_ENUM_H
#include "vf_ref.h"

typedef struct {
  uint8_t b[12];
  uint8_t n;
} vf_tok;
typedef struct {
  const char* name;
  const vf_tok* toks;
  size_t ntoks;
} vf_alphabet;
extern vf_alphabet VF_SIGMA;   /* full head alphabet: every major type x every width x flavour, reserved bytes */
extern vf_alphabet VF_SIGMA1;  /* one width per type + all structural tokens */
extern vf_alphabet VF_SIGMA2;  /* purely structural tokens */
void vf_enum_init(void);

enum { VD_INPROGRESS = 0, VD_ACCEPT = 1, VD_REJECT = 2 };
typedef struct {
  const uint8_t* bytes;
  size_t n;
  size_t ntok;
  const size_t* tok_off; /* ntok+1 offsets of head boundaries */
  int status;            /* VD_* according to the reference decoder with limit L */
  const rdecode* ref;    /* reference verdict for the full sequence */
} vf_seq;
typedef void (*vf_seq_fn)(const vf_seq* s, void* ctx);
/* units = ntoks (depth-1 roots) * ntoks (second head) ; unit u covers the subtree below (t1,t2);
 * roots whose first head already decides are reported once, by the unit with t2 == 0 */
uint64_t vf_dfs_units(const vf_alphabet* a);
void vf_dfs_unit(const vf_alphabet* a, unsigned k, uint64_t unit, size_t L, uint64_t alloc_cap, vf_seq_fn fn, void* ctx);

/* B(n): unit = first two bytes (65536 units) + one unit for lengths 0 and 1 */
typedef void (*vf_bytes_fn)(const uint8_t* b, size_t n, void* ctx);
uint64_t vf_bn_units(void);
void vf_bn_unit(unsigned nmax, uint64_t unit, vf_bytes_fn fn, void* ctx);
/* B*(n): as B(n) but a string is extended only while the reference decoder (limit L, allocator cap) still waits for input; same units */
void vf_bstar_unit(unsigned nmax, uint64_t unit, size_t L, uint64_t cap, vf_bytes_fn fn, void* ctx);

/* neighbours of a head sequence; fn is called with each mutated byte string */
void vf_neighbours(const vf_seq* s, vf_bytes_fn fn, void* ctx);
/* boundary corpus (vf_corpus.c): items on every head-width boundary and growth step */
void vf_corpus_init(void);
size_t vf_corpus_count(void);
const uint8_t* vf_corpus_item(size_t i, size_t* n, const char** name);
#endif
