/* Walker: reads a libcbor item through the public getters into a reference tree (rnode),
 * recording refcounts, capacities and block addresses observed on the implementation. */
#ifndef VF_WALK_H
#define VF_WALK_H
#include "cbor.h"
#include "vf_ref.h"
rnode* vf_walk(const cbor_item_t* it);
/* number of nodes visited by the last vf_walk */
extern size_t vf_walk_nodes;
/* collect the addresses of every block reachable from the tree (items, handles, tables) */
size_t vf_collect_blocks(const rnode* t, const void** out, size_t cap);
#endif
