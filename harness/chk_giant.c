/* Giant cases: the 2^32 boundary of string lengths, executed on the real library with real 4 GiB payloads.
 *
 * Short inputs and the narrow-size_t builds (C20) cannot reach a length that is truncated because some refactor stored it in an
 * `unsigned`, `int` or `uint32_t`: in the narrow builds those types are WIDER than size_t. The only way to see such a slip is to hand
 * the library a string of 2^32 bytes or more. The payloads here cost nothing to provide: they are lazily mapped zero pages (U+0000 is
 * a valid scalar value, so 2^32 zero bytes are valid UTF-8 with 2^32 code points); only what the library itself copies is resident.
 *
 * One binary, -DPROP selects the property whose oracle is applied:
 *    1/2  cbor_load of definite byte / text strings of 2^32-1, 2^32 and 2^32+24 bytes (top level, as a chunk, inside an array),
 *         then the client pipeline (size, serialize into a lazily mapped buffer, release)              -> C01 (returns, memory-safe), C02 (faithful)
 *    3/7  size / serialize / serialize_alloc of such items with n = size-1, size, size+2; re-load        -> C03, C07
 *    8/9  cbor_stream_decode on such heads with n around head and payload end; a buffering client fed in fragments -> C08, C09
 *   11    cbor_copy of such items (alone, as a chunk, in an array)                                   -> C11
 *   16    code point count of 2^32+1 valid bytes, of a 2-byte scalar straddling offset 2^32, of an invalid byte beyond 2^32 -> C16
 * Every scenario is one unit; the runner executes at most two at a time (vf passes --jobs 2) so that resident memory stays below ~17 GiB.
 * If less than 24 GiB are available the scenarios are not run and the evidence says so (exhaustive = false). */
#define _GNU_SOURCE
#include <inttypes.h>
#include <sys/mman.h>

#include "cbor.h"
#include "vf.h"
#include "vf_alloc.h"
#include "vf_rec.h"
#include "vf_ref.h"

#ifndef PROP
#error "PROP"
#endif
#define G (1ull << 32)
enum { K_SCEN = VC_USER, K_BYTES_PROVIDED, K_BYTES_COMPARED, K_CALLS, K_SKIPPED };

static bool have_memory;
static uint8_t* region(size_t n) {
  uint8_t* p = mmap(NULL, n, PROT_READ | PROT_WRITE, MAP_PRIVATE | MAP_ANONYMOUS | MAP_NORESERVE, -1, 0);
  if (p == MAP_FAILED) {
    perror("mmap");
    abort();
  }
  return p;
}
static void unregion(uint8_t* p, size_t n) { munmap(p, n); }
static uint64_t mem_available_kib(void) {
  FILE* f = fopen("/proc/meminfo", "r");
  if (!f) return 0;
  char line[256];
  uint64_t v = 0;
  while (fgets(line, sizeof line, f))
    if (sscanf(line, "MemAvailable: %" SCNu64, &v) == 1) break;
  fclose(f);
  return v;
}
/* all-zero check of a large range, 1 MiB at a time (heartbeat in between) */
static bool all_zero(const uint8_t* p, size_t n) {
  static const uint8_t Z[4096] = {0};
  vf_cnt(K_BYTES_COMPARED, n);
  while (n) {
    size_t k = n < sizeof Z ? n : sizeof Z;
    if (memcmp(p, Z, k)) return false;
    p += k;
    n -= k;
  }
  return true;
}
static void beat(const char* what, uint64_t u) {
  uint8_t d[9];
  d[0] = PROP;
  memcpy(d + 1, &u, 8);
  (void)what;
  vf_case("giant", d, 9);
}

/* the lengths: both sides of 2^32, and the largest a 4-byte head can carry */
static const struct { const char* name; uint64_t len; unsigned argw; } LEN[] = {{"2^32-1 (4-byte length)", G - 1, 4}, {"2^32", G, 8}, {"2^32+24", G + 24, 8}};
#define NLEN 3
static size_t put_head(uint8_t* b, unsigned mt, uint64_t len, unsigned argw) {
  b[0] = (uint8_t)(mt << 5 | (argw == 4 ? 26 : 27));
  for (unsigned i = 0; i < argw; i++) b[1 + i] = (uint8_t)(len >> (8 * (argw - 1 - i)));
  return 1 + argw;
}

/* ------------------------------------------------------------------------------------------------ C08 / C09 */
#if PROP == 8 || PROP == 9
static void stream_unit(uint64_t u) {
  unsigned li = (unsigned)(u % NLEN), text = (unsigned)(u / NLEN % 2);
  uint64_t len = LEN[li].len;
  size_t cap = 9 + len + 4096;
  uint8_t* b = region(cap);
  size_t hl = put_head(b, text ? 3 : 2, len, LEN[li].argw);
  b[hl + len] = 0x01; /* the next item */
  b[hl + len + 1] = 0xff;
  vf_cnt(K_BYTES_PROVIDED, len);
#if PROP == 8
  const uint64_t NS[] = {hl, hl + 1, hl + (1ull << 31), hl + len - 1, hl + len, hl + len + 1, hl + len + 2};
  for (unsigned i = 0; i < sizeof NS / sizeof NS[0]; i++) {
    size_t n = NS[i];
    beat("stream", u);
    vf_rec rec;
    vf_rec_reset(&rec);
    va_reset();
    struct cbor_decoder_result r = cbor_stream_decode(b, n, &vf_rec_callbacks, &rec);
    vf_cnt(K_CALLS, 1);
    vf_cnt(VC_EVAL, 1);
    vf_cnt(VC_TRACES, 1);
    vf_cnt(VC_TRANS, 1);
    rhead h;
    int hr = ref_head(b, n, 0, &h);
    if (va.requests) vf_fail(NULL, "cbor_stream_decode made allocator requests");
    if (hr == RH_OK) {
      vf_event e;
      vf_expected_event(b, 0, &h, &e);
      if (r.status != CBOR_DECODER_FINISHED || rec.ncalls != 1 || r.read != (size_t)h.full)
        vf_fail(NULL, "%s string of %s bytes, %zu bytes buffered: complete, but status=%d callbacks=%u read=%zu (item occupies %" PRIu64 ")", text ? "text" : "byte", LEN[li].name, n, r.status,
                rec.ncalls, r.read, (uint64_t)h.full);
      else if (!vf_event_equal(&rec.ev[0], &e))
        vf_fail(NULL, "%s string of %s bytes: callback got length %" PRIu64 " at buf+%td, expected %" PRIu64 " at buf+%zu", text ? "text" : "byte", LEN[li].name, rec.ev[0].len,
                rec.ev[0].ptr - b, e.len, hl);
    } else {
      if (r.status != CBOR_DECODER_NEDATA || rec.ncalls || r.read)
        vf_fail(NULL, "%s string of %s bytes, %zu bytes buffered: incomplete, but status=%d callbacks=%u read=%zu", text ? "text" : "byte", LEN[li].name, n, r.status, rec.ncalls, r.read);
      else if (!(r.required > n) || (unsigned __int128)r.required > h.need)
        vf_fail(NULL, "%s string of %s bytes, %zu bytes buffered: required = %zu (must be above the buffered bytes and at most %" PRIu64 ")", text ? "text" : "byte", LEN[li].name, n,
                r.required, (uint64_t)h.need);
    }
  }
#else
  /* a buffering client; fragments arrive at these cumulative offsets */
  size_t total = hl + len + 1;
  const uint64_t CUTS[][6] = {{total, 0}, {1, hl, total, 0}, {hl - 1, hl + (1ull << 31), hl + len - 1, hl + len, total, 0}, {hl + 1, hl + len + 1, 0}, {hl, hl + G - 1 < total ? hl + G - 1 : total, total, 0}};
  for (unsigned ci = 0; ci < sizeof CUTS / sizeof CUTS[0]; ci++) {
    beat("client", u);
    size_t arrived = 0, c = 0, req = 0;
    unsigned nev = 0, k = 0;
    bool stop = false;
    vf_cnt(VC_EVAL, 1);
    while (!stop) {
      while (arrived - c >= req && c < total) {
        size_t bb = arrived - c;
        vf_rec rec;
        vf_rec_reset(&rec);
        struct cbor_decoder_result r = cbor_stream_decode(b + c, bb, &vf_rec_callbacks, &rec);
        vf_cnt(K_CALLS, 1);
        vf_cnt(VC_TRACES, 1);
        vf_cnt(VC_TRANS, 1);
        if (r.status == CBOR_DECODER_FINISHED) {
          bool ok = rec.ncalls == 1 && r.read > 0 && r.read <= bb;
          if (ok && nev == 0) ok = (rec.ev[0].slot == (text ? S_TEXT : S_BYTES)) && rec.ev[0].len == len && rec.ev[0].ptr == b + hl && r.read == hl + len;
          if (ok && nev == 1) ok = rec.ev[0].slot == S_UINT8 && rec.ev[0].val == 1 && r.read == 1;
          if (!ok || nev > 1) {
            vf_fail(NULL, "fragmented %s string of %s bytes (cut set %u): event %u is wrong: callbacks=%u read=%zu of %zu buffered, length %" PRIu64, text ? "text" : "byte", LEN[li].name, ci, nev,
                    rec.ncalls, r.read, bb, rec.ncalls ? rec.ev[0].len : 0);
            stop = true;
            break;
          }
          nev++;
          c += r.read;
          req = 0;
        } else if (r.status == CBOR_DECODER_NEDATA) {
          if (r.required <= bb || r.read || rec.ncalls) {
            vf_fail(NULL, "fragmented %s string of %s bytes (cut set %u): wait for %zu bytes with %zu buffered", text ? "text" : "byte", LEN[li].name, ci, r.required, bb);
            stop = true;
            break;
          }
          if (c == 0 && r.required > hl + len) {
            vf_fail(NULL, "fragmented %s string of %s bytes: wait asks for %zu bytes, the item occupies %" PRIu64, text ? "text" : "byte", LEN[li].name, r.required, (uint64_t)(hl + len));
            stop = true;
            break;
          }
          req = r.required;
        } else {
          vf_fail(NULL, "fragmented %s string of %s bytes: decoder reports ERROR", text ? "text" : "byte", LEN[li].name);
          stop = true;
          break;
        }
      }
      if (stop || arrived >= total) break;
      arrived = CUTS[ci][k++];
      if (!arrived) break;
    }
    if (!stop && (nev != 2 || c != total)) vf_fail(NULL, "fragmented %s string of %s bytes (cut set %u): %u events delivered, %zu of %zu bytes consumed", text ? "text" : "byte", LEN[li].name, ci, nev, c, total);
  }
#endif
  vf_cnt(K_SCEN, 1);
  vf_cnt(VC_DISTINCT, 1);
  unregion(b, cap);
}
#define NUNITS (NLEN * 2)
#define SCENARIO(s) stream_unit(s)
#define MAP(u) (u)
#endif

/* ------------------------------------------------------------------------------------------------ items with a lazily mapped handle */
#if PROP != 8 && PROP != 9
static uint8_t* zero_src;
static size_t zero_cap = G + (1u << 20);
/* a definite string item whose handle is the zero region (the item must be given back its NULL handle before release) */
static cbor_item_t* borrowed_string(bool text, uint64_t len) {
  cbor_item_t* it = text ? cbor_new_definite_string() : cbor_new_definite_bytestring();
  if (!it) return NULL;
  if (text) cbor_string_set_handle(it, zero_src, len); else cbor_bytestring_set_handle(it, zero_src, len);
  vf_cnt(K_BYTES_PROVIDED, len);
  return it;
}
static void release_borrowed(cbor_item_t* it, bool text) {
  if (text) cbor_string_set_handle(it, NULL, 0); else cbor_bytestring_set_handle(it, NULL, 0);
  cbor_decref(&it);
}
static uint64_t str_len(const cbor_item_t* it) { return cbor_isa_string(it) ? cbor_string_length(it) : cbor_bytestring_length(it); }
static const uint8_t* str_handle(const cbor_item_t* it) { return cbor_isa_string(it) ? cbor_string_handle(it) : cbor_bytestring_handle(it); }
static bool is_def_string(const cbor_item_t* it, bool text) {
  return text ? (cbor_isa_string(it) && cbor_string_is_definite(it)) : (cbor_isa_bytestring(it) && cbor_bytestring_is_definite(it));
}
#endif

/* ------------------------------------------------------------------------------------------------ C16 */
#if PROP == 16
static void utf8_unit(uint64_t u) {
  uint64_t len, want;
  const char* what;
  uint8_t* r = region(zero_cap);
  switch (u) {
    /* a multi-byte scalar that STARTS exactly 2^32 (.. 2^32+3) bytes before the end: a remaining-length that is reduced mod 2^32 runs out inside it */
    case 0: len = G + 8; r[8] = 0xc3; r[9] = 0xa9; want = G + 7; what = "2^32+8 bytes, U+00E9 starting 2^32 bytes before the end"; break;
    case 1: len = G + 8; r[G - 1] = 0xc3; r[G] = 0xa9; want = G + 7; what = "2^32+8 bytes, U+00E9 straddling offset 2^32"; break;
    case 2: len = G + 8; r[G + 3] = 0xff; want = 0; what = "2^32+8 bytes with an invalid byte at offset 2^32+3"; break;
    case 3: len = G - 1; r[G - 2] = 0xf0; want = 0; what = "2^32-1 bytes ending in a truncated 4-byte sequence"; break;
    case 4: len = G + 8; r[7] = 0xe2; r[8] = 0x82; r[9] = 0xac; want = G + 6; what = "2^32+8 bytes, U+20AC starting 2^32+1 bytes before the end"; break;
    default: len = G + 8; r[5] = 0xf0; r[6] = 0x9f; r[7] = 0x98; r[8] = 0x80; want = G + 5; what = "2^32+8 bytes, U+1F600 starting 2^32+3 bytes before the end"; break;
  }
  beat("utf8", u);
  vf_cnt(VC_EVAL, 1);
  vf_cnt(VC_TRACES, 1);
  vf_cnt(VC_TRANS, len);
  vf_cnt(K_BYTES_PROVIDED, len);
  cbor_item_t* it = cbor_new_definite_string();
  if (!it) { vf_fail(NULL, "cbor_new_definite_string failed"); return; }
  cbor_string_set_handle(it, r, len);
  vf_cnt(K_CALLS, 1);
  if (cbor_string_codepoint_count(it) != want)
    vf_fail(NULL, "cbor_string_set_handle, %s: code point count %zu, RFC 3629 count %" PRIu64, what, cbor_string_codepoint_count(it), want);
  if (cbor_string_length(it) != len || cbor_string_handle(it) != r) vf_fail(NULL, "cbor_string_set_handle, %s: length or handle changed (%zu)", what, cbor_string_length(it));
  cbor_string_set_handle(it, NULL, 0);
  cbor_decref(&it);
  /* decode path for the first two: the decoder copies the text and counts again */
  if (u <= 1) {
    beat("utf8-load", u);
    uint8_t* in = region(zero_cap + 16);
    size_t hl = put_head(in, 3, len, 8);
    if (u == 0) { in[hl + 8] = 0xc3; in[hl + 9] = 0xa9; }
    if (u == 1) { in[hl + G - 1] = 0xc3; in[hl + G] = 0xa9; }
    struct cbor_load_result res;
    va_reset();
    cbor_item_t* d = cbor_load(in, hl + len, &res);
    vf_cnt(K_CALLS, 1);
    if (!d) vf_fail(NULL, "cbor_load rejects a text string of %s (code %d at %zu)", what, res.error.code, res.error.position);
    else {
      if (!cbor_isa_string(d) || !cbor_string_is_definite(d) || cbor_string_length(d) != len) vf_fail(NULL, "cbor_load of a text string of %s: wrong type or length %zu", what, cbor_isa_string(d) ? cbor_string_length(d) : 0);
      else if (cbor_string_codepoint_count(d) != want) vf_fail(NULL, "cbor_load, %s: code point count %zu, RFC 3629 count %" PRIu64, what, cbor_string_codepoint_count(d), want);
      cbor_decref(&d);
    }
    if (va.live) { vf_fail(NULL, "leak after giant load"); va_release_all(); }
    unregion(in, zero_cap + 16);
  }
  vf_cnt(K_SCEN, 1);
  vf_cnt(VC_DISTINCT, 1);
  unregion(r, zero_cap);
}
#define NUNITS (vf_tier ? 6 : 2) /* quick: 2^32+8 valid bytes with a 2-byte scalar starting 2^32 bytes before the end (attach + decode), and an invalid byte beyond 2^32 */
#define SCENARIO(s) utf8_unit(s)
#define MAP(u) (vf_tier ? (u) : (u) * 2)
#endif

/* ------------------------------------------------------------------------------------------------ C11 */
#if PROP == 11
static void check_copy_of_string(const cbor_item_t* src, const cbor_item_t* cp, bool text, uint64_t len, const char* where) {
  if (!is_def_string(cp, text)) { vf_fail(NULL, "%s: the copy is not a definite %s string", where, text ? "text" : "byte"); return; }
  if (str_len(cp) != len) { vf_fail(NULL, "%s: the copy has length %" PRIu64 ", the source %" PRIu64, where, str_len(cp), len); return; }
  if (str_handle(cp) == str_handle(src) || cp == src) vf_fail(NULL, "%s: the copy shares its buffer or node with the source", where);
  if (cbor_refcount(cp) != 1) vf_fail(NULL, "%s: copy has refcount %zu", where, cbor_refcount(cp));
  if (text && cbor_string_codepoint_count(cp) != cbor_string_codepoint_count(src)) vf_fail(NULL, "%s: code point count of the copy %zu, of the source %zu", where, cbor_string_codepoint_count(cp), cbor_string_codepoint_count(src));
  beat("copy-compare", 0);
  if (!all_zero(str_handle(cp), len)) vf_fail(NULL, "%s: content of the copy differs from the source", where);
}
static void copy_unit(uint64_t u) {
  unsigned li = (unsigned)(u % NLEN), shape = (unsigned)(u / NLEN % 3);
  bool text = u >= 3 * NLEN;
  uint64_t len = LEN[li].len;
  beat("copy", u);
  va_reset();
  vf_cnt(VC_EVAL, 1);
  vf_cnt(VC_TRACES, 1);
  cbor_item_t* s = borrowed_string(text, len);
  if (!s) { vf_fail(NULL, "constructor failed"); return; }
  cbor_item_t* root = s;
  if (shape == 1) { /* as the only chunk of an indefinite string */
    root = text ? cbor_new_indefinite_string() : cbor_new_indefinite_bytestring();
    if (!root || !(text ? cbor_string_add_chunk(root, s) : cbor_bytestring_add_chunk(root, s))) { vf_fail(NULL, "add_chunk failed"); return; }
  } else if (shape == 2) { /* second element of a definite array */
    root = cbor_new_definite_array(2);
    cbor_item_t* one = cbor_build_uint8(1);
    if (!root || !one || !cbor_array_push(root, one) || !cbor_array_push(root, s)) { vf_fail(NULL, "array construction failed"); return; }
    cbor_decref(&one);
  }
  size_t sz = cbor_serialized_size(root);
  uint64_t live0 = va.live;
  cbor_item_t* c = cbor_copy(root);
  vf_cnt(K_CALLS, 1);
  vf_cnt(VC_TRANS, 1);
  char where[128];
  snprintf(where, sizeof where, "cbor_copy of a %s string of %s bytes%s", text ? "text" : "byte", LEN[li].name, shape == 1 ? " (chunk of an indefinite string)" : shape == 2 ? " (array element)" : "");
  if (!c) vf_fail(NULL, "%s returned NULL although no allocation was refused", where);
  else {
    const cbor_item_t* cs = c;
    if (shape == 1) {
      bool okk = text ? (cbor_isa_string(c) && cbor_string_is_indefinite(c) && cbor_string_chunk_count(c) == 1) : (cbor_isa_bytestring(c) && cbor_bytestring_is_indefinite(c) && cbor_bytestring_chunk_count(c) == 1);
      cs = okk ? (text ? cbor_string_chunks_handle(c)[0] : cbor_bytestring_chunks_handle(c)[0]) : NULL;
      if (!okk) vf_fail(NULL, "%s: shape of the copy differs", where);
    } else if (shape == 2) {
      bool okk = cbor_isa_array(c) && cbor_array_is_definite(c) && cbor_array_size(c) == 2;
      cs = okk ? cbor_array_handle(c)[1] : NULL;
      if (!okk) vf_fail(NULL, "%s: shape of the copy differs", where);
    }
    if (cs) check_copy_of_string(s, cs, text, len, where);
    if (cbor_serialized_size(c) != sz) vf_fail(NULL, "%s: the copy would serialize to %zu bytes, the source to %zu", where, cbor_serialized_size(c), sz);
    cbor_decref(&c);
    if (va.live != live0) vf_fail(NULL, "%s: releasing the copy left %" PRId64 " blocks", where, (int64_t)(va.live - live0));
  }
  if (str_len(s) != len || str_handle(s) != zero_src) vf_fail(NULL, "%s modified the source", where);
  /* release: detach the borrowed handle first */
  if (text) cbor_string_set_handle(s, NULL, 0); else cbor_bytestring_set_handle(s, NULL, 0);
  if (root != s) cbor_decref(&s);
  cbor_decref(&root);
  if (va.live) { vf_fail(NULL, "%s: %" PRIu64 " blocks live at the end", where, va.live); va_release_all(); }
  if (va.errors) vf_fail(NULL, "allocator protocol violated: %s", va.last_error);
  vf_cnt(K_SCEN, 1);
  vf_cnt(VC_DISTINCT, 1);
}
/* quick: byte strings of all three lengths alone, of 2^32 bytes as a chunk and as an array element, one text string of 2^32 bytes; thorough: all 18 */
static const uint8_t QUICK11[] = {0, 1, 2, NLEN + 1, 2 * NLEN + 1, 3 * NLEN + 1};
#define NUNITS (vf_tier ? 6 * NLEN : sizeof QUICK11)
#define SCENARIO(s) copy_unit(s)
#define MAP(u) (vf_tier ? (u) : QUICK11[u])
#endif

/* ------------------------------------------------------------------------------------------------ C03 / C07 */
#if PROP == 3 || PROP == 7
static void ser_unit(uint64_t u) {
  unsigned li = (unsigned)(u % NLEN), shape = (unsigned)(u / NLEN % 2);
  bool text = u >= 2 * NLEN;
  uint64_t len = LEN[li].len;
  beat("serialize", u);
  va_reset();
  vf_cnt(VC_EVAL, 1);
  vf_cnt(VC_TRACES, 1);
  cbor_item_t* s = borrowed_string(text, len);
  if (!s) { vf_fail(NULL, "constructor failed"); return; }
  cbor_item_t* root = s;
  uint8_t pre[16];
  size_t npre = 0;
  if (shape == 1) { /* [1, s] */
    root = cbor_new_definite_array(2);
    cbor_item_t* one = cbor_build_uint8(1);
    if (!root || !one || !cbor_array_push(root, one) || !cbor_array_push(root, s)) { vf_fail(NULL, "array construction failed"); return; }
    cbor_decref(&one);
    pre[npre++] = 0x82;
    pre[npre++] = 0x01;
  }
  npre += ref_put_head(pre, sizeof pre, npre, text ? 3 : 2, len, 0); /* shortest head */
  uint64_t want = npre + len;
  char where[128];
  snprintf(where, sizeof where, "%s string of %s bytes%s", text ? "text" : "byte", LEN[li].name, shape ? " inside [1, .]" : "");
  size_t sz = cbor_serialized_size(root);
  vf_cnt(K_CALLS, 1);
  if (sz != want) vf_fail(NULL, "cbor_serialized_size of a %s = %zu, the RFC encoding has %" PRIu64 " bytes", where, sz, want);
  size_t ocap = want + 8192;
  uint8_t* o = region(ocap);
  const int64_t DN[] = {-1, 0, 2};
  for (unsigned k = 0; k < (vf_tier ? 3u : 2u); k++) { /* n = size-1, size (thorough: also size+2) */
    beat("serialize-n", u);
    size_t n = (size_t)((int64_t)want + DN[k]);
    o[0] = 0xA5;
    o[want] = 0x5C; /* first byte beyond the encoding */
    o[want + 1] = 0x5C;
    o[want + 2] = 0x5C;
    size_t w = cbor_serialize(root, o, n);
    vf_cnt(K_CALLS, 1);
    vf_cnt(VC_TRANS, 1);
    if (n >= want) {
      if (w != want) vf_fail(NULL, "cbor_serialize of a %s with n = size%+" PRId64 " returned %zu, expected %" PRIu64, where, DN[k], w, want);
      else {
        if (memcmp(o, pre, npre)) vf_fail(NULL, "cbor_serialize of a %s wrote a wrong head", where);
        if (!all_zero(o + npre, len)) vf_fail(NULL, "cbor_serialize of a %s wrote a wrong payload", where);
      }
      if (o[want] != 0x5C) vf_fail(NULL, "cbor_serialize of a %s wrote beyond the encoding", where);
    } else {
      if (w != 0) vf_fail(NULL, "cbor_serialize of a %s with n = size-1 returned %zu instead of 0", where, w);
      if (o[want - 1 + 1] != 0x5C) vf_fail(NULL, "cbor_serialize of a %s with n = size-1 wrote beyond the first n bytes", where);
    }
  }
#if PROP == 7
  {
    beat("serialize-alloc", u);
    unsigned char* ab = NULL;
    size_t absz = 0;
    uint64_t live0 = va.live;
    size_t w = cbor_serialize_alloc(root, &ab, &absz);
    vf_cnt(K_CALLS, 1);
    if (w != want || absz != want || !ab) vf_fail(NULL, "cbor_serialize_alloc of a %s returned %zu, *size %zu, buffer %p", where, w, absz, (void*)ab);
    else {
      if (va_block_size(ab) != want) vf_fail(NULL, "cbor_serialize_alloc of a %s: buffer has %zu bytes", where, va_block_size(ab));
      else if (memcmp(ab, pre, npre) || !all_zero(ab + npre, len)) vf_fail(NULL, "cbor_serialize_alloc of a %s: bytes differ from cbor_serialize", where);
    }
    if (ab) va_free(ab);
    if (va.live != live0) vf_fail(NULL, "cbor_serialize_alloc left blocks");
  }
#endif
#if PROP == 3
  { /* round trip: the bytes load back, are consumed entirely, and give an equal item */
    beat("reload", u);
    (void)cbor_serialize(root, o, want);
    struct cbor_load_result res;
    cbor_item_t* t2 = cbor_load(o, want, &res);
    vf_cnt(K_CALLS, 1);
    if (!t2) vf_fail(NULL, "cbor_load rejects the serialization of a %s (code %d at %zu)", where, res.error.code, res.error.position);
    else {
      if (res.read != want) vf_fail(NULL, "loading the serialization of a %s consumed %zu of %" PRIu64 " bytes", where, res.read, want);
      const cbor_item_t* e = t2;
      if (shape == 1) e = (cbor_isa_array(t2) && cbor_array_size(t2) == 2) ? cbor_array_handle(t2)[1] : NULL;
      if (!e || !is_def_string(e, text) || str_len(e) != len) vf_fail(NULL, "load(serialize(x)) of a %s differs in shape or length", where);
      else {
        beat("reload-compare", u);
        if (!all_zero(str_handle(e), len)) vf_fail(NULL, "load(serialize(x)) of a %s differs in content", where);
        if (text && cbor_string_codepoint_count(e) != cbor_string_codepoint_count(s)) vf_fail(NULL, "load(serialize(x)) of a %s differs in code point count", where);
      }
      cbor_decref(&t2);
    }
  }
#endif
  unregion(o, ocap);
  if (text) cbor_string_set_handle(s, NULL, 0); else cbor_bytestring_set_handle(s, NULL, 0);
  if (root != s) cbor_decref(&s);
  cbor_decref(&root);
  if (va.live) { vf_fail(NULL, "%" PRIu64 " blocks live at the end", va.live); va_release_all(); }
  vf_cnt(K_SCEN, 1);
  vf_cnt(VC_DISTINCT, 1);
}
/* quick: byte strings of 2^32-1 and 2^32+24 bytes alone, of 2^32 bytes inside an array, a text string of 2^32 bytes; thorough: all 12 */
static const uint8_t QUICK3[] = {0, 2, NLEN + 1, 2 * NLEN + 1};
#define NUNITS (vf_tier ? 4 * NLEN : sizeof QUICK3)
#define SCENARIO(s) ser_unit(s)
#define MAP(u) (vf_tier ? (u) : QUICK3[u])
#endif

/* ------------------------------------------------------------------------------------------------ C01 / C02 */
#if PROP == 1 || PROP == 2
static void load_unit(uint64_t u) {
  unsigned li = (unsigned)(u % NLEN), shape = (unsigned)(u / NLEN % 3);
  bool text = u >= 3 * NLEN;
  uint64_t len = LEN[li].len;
  size_t cap = len + 64 + 4096;
  uint8_t* in = region(cap);
  size_t n = 0;
  if (shape == 1) in[n++] = text ? 0x7f : 0x5f;
  if (shape == 2) { in[n++] = 0x82; in[n++] = 0x01; }
  size_t hl = put_head(in + n, text ? 3 : 2, len, LEN[li].argw);
  size_t payload_at = n + hl;
  n += hl + len;
  if (shape == 1) in[n++] = 0xff;
  size_t item_end = n;
  in[n++] = 0xff; /* a byte after the item: must not be consumed or looked at */
  char where[128];
  snprintf(where, sizeof where, "%s string of %s bytes%s", text ? "text" : "byte", LEN[li].name, shape == 1 ? " as a chunk" : shape == 2 ? " inside [1, .]" : "");
  beat("load", u);
  va_reset();
  vf_cnt(VC_EVAL, 1);
  vf_cnt(VC_TRACES, 1);
  vf_cnt(K_BYTES_PROVIDED, len);
  struct cbor_load_result res;
  memset(&res, 0xEE, sizeof res);
  cbor_item_t* t = cbor_load(in, n, &res);
  vf_cnt(K_CALLS, 1);
  vf_cnt(VC_TRANS, 1);
  if (!t) {
    vf_fail(NULL, "cbor_load rejects a well-formed %s (code %d at %zu) although no allocation was refused", where, res.error.code, res.error.position);
    if (va.live) { vf_fail(NULL, "and leaves %" PRIu64 " blocks allocated", va.live); va_release_all(); }
  } else {
    if (res.read != item_end) vf_fail(NULL, "cbor_load of a %s reports %zu bytes read, the item occupies %zu", where, res.read, item_end);
    if (res.error.code != CBOR_ERR_NONE) vf_fail(NULL, "cbor_load of a %s succeeded with error code %d", where, res.error.code);
    const cbor_item_t* e = t;
    if (shape == 1) {
      bool okk = text ? (cbor_isa_string(t) && cbor_string_is_indefinite(t) && cbor_string_chunk_count(t) == 1) : (cbor_isa_bytestring(t) && cbor_bytestring_is_indefinite(t) && cbor_bytestring_chunk_count(t) == 1);
      e = okk ? (text ? cbor_string_chunks_handle(t)[0] : cbor_bytestring_chunks_handle(t)[0]) : NULL;
    } else if (shape == 2)
      e = (cbor_isa_array(t) && cbor_array_is_definite(t) && cbor_array_size(t) == 2) ? cbor_array_handle(t)[1] : NULL;
    if (!e || !is_def_string(e, text)) vf_fail(NULL, "cbor_load of a %s built a tree of another shape", where);
    else {
      if (str_len(e) != len) vf_fail(NULL, "cbor_load of a %s built a string of length %" PRIu64, where, str_len(e));
      else {
        if (str_handle(e) >= in && str_handle(e) < in + cap) vf_fail(NULL, "cbor_load of a %s: the item refers to the input buffer", where);
        beat("load-compare", u);
        /* the caller's buffer may be overwritten at once: do so, then read the item */
        in[payload_at] = 0x77;
        in[payload_at + len - 1] = 0x77;
        if (!all_zero(str_handle(e), len)) vf_fail(NULL, "cbor_load of a %s: content differs from the input", where);
      }
      if (text && cbor_string_codepoint_count(e) != len) vf_fail(NULL, "cbor_load of a %s: code point count %zu", where, cbor_string_codepoint_count(e));
      if (cbor_refcount(e) != 1) vf_fail(NULL, "cbor_load of a %s: refcount %zu", where, cbor_refcount(e));
    }
    /* the client pipeline on the decoded tree (describe is left out: it would print 4 GiB) */
    beat("pipeline", u);
    size_t sz = cbor_serialized_size(t);
    uint64_t enc = item_end; /* the heads used here are already the shortest for these lengths */
    if (sz != enc) vf_fail(NULL, "cbor_serialized_size of the decoded %s = %zu, its (already shortest-form) encoding has %" PRIu64 " bytes", where, sz, enc);
    uint8_t* o = region(enc + 4096);
    size_t w = cbor_serialize(t, o, enc);
    if (w != enc) vf_fail(NULL, "cbor_serialize of the decoded %s returned %zu", where, w);
    else {
      in[payload_at] = 0;
      in[payload_at + len - 1] = 0;
      beat("pipeline-compare", u);
      vf_cnt(K_BYTES_COMPARED, enc);
      if (memcmp(o, in, payload_at) || !all_zero(o + payload_at, len) || memcmp(o + payload_at + len, in + payload_at + len, item_end - payload_at - len)) vf_fail(NULL, "serializing the decoded %s does not reproduce the input", where);
    }
    unregion(o, enc + 4096);
    cbor_decref(&t);
    if (va.live) { vf_fail(NULL, "%" PRIu64 " blocks live after releasing the decoded %s", va.live, where); va_release_all(); }
  }
  /* one byte short: NOTENOUGHDATA, nothing allocated */
  beat("load-short", u);
  va_reset();
  memset(&res, 0xEE, sizeof res);
  t = cbor_load(in, item_end - 1, &res);
  vf_cnt(K_CALLS, 1);
  if (t) { vf_fail(NULL, "cbor_load accepts a %s that is one byte short", where); cbor_decref(&t); }
  else if (res.error.code != CBOR_ERR_NOTENOUGHDATA) vf_fail(NULL, "a %s that is one byte short gives error %d, expected NOTENOUGHDATA", where, res.error.code);
  if (va.live) { vf_fail(NULL, "a failed load of a %s leaves %" PRIu64 " blocks allocated", where, va.live); va_release_all(); }
  if (va.errors) vf_fail(NULL, "allocator protocol violated: %s", va.last_error);
  vf_cnt(K_SCEN, 1);
  vf_cnt(VC_DISTINCT, 1);
  unregion(in, cap);
}
/* quick: byte strings of all three lengths alone, of 2^32 bytes as a chunk and as an array element, text strings of 2^32 bytes alone and as a chunk; thorough: all 18 */
static const uint8_t QUICK1[] = {0, 1, 2, NLEN + 1, 2 * NLEN + 1, 3 * NLEN + 1, 4 * NLEN + 1};
#define NUNITS (vf_tier ? 6 * NLEN : sizeof QUICK1)
#define SCENARIO(s) load_unit(s)
#define MAP(u) (vf_tier ? (u) : QUICK1[u])
#endif

/* ------------------------------------------------------------------------------------------------ */
static void unit(uint64_t u) {
  if (!have_memory) {
    vf_cnt(K_SKIPPED, 1);
    return;
  }
  va_cap = 1ull << 34;
  SCENARIO(MAP(u)); /* the scenario number, not the unit number, is what a case publishes and a replay receives */
}
static uint64_t units(void) { return NUNITS; }
static void init(void) {
  va_install();
  uint64_t kib = mem_available_kib();
  have_memory = kib >= 24ull * 1024 * 1024 && !getenv("VF_NO_GIANT");
  vf_extra("giant_cases", "%s (MemAvailable %" PRIu64 " MiB; 24576 MiB required)", have_memory ? "run" : "NOT RUN", kib / 1024);
  if (!have_memory) vf_not_exhaustive("giant cases need 24 GiB of available memory");
#if PROP != 8 && PROP != 9
  zero_src = region(zero_cap);
#endif
}
static void replay(const char* tag, const uint8_t* d, size_t len) {
  if (strcmp(tag, "giant") || len < 9) return;
  uint64_t u;
  memcpy(&u, d + 1, 8);
  have_memory = true;
  va_cap = 1ull << 34;
  fprintf(stderr, "giant scenario %" PRIu64 " of property C%02d\n", u, PROP);
  SCENARIO(u);
}
#define STR2(x) #x
#define STR(x) STR2(x)
struct vf_check vf_the_check = {
#if PROP < 10
    .property = "C0" STR(PROP),
#else
    .property = "C" STR(PROP),
#endif
    .level = "exploration",
    .rule = "giant cases: definite byte and text strings of 2^32-1 (largest 4-byte length), 2^32 and 2^32+24 bytes - at top level, as the only chunk of an indefinite string, and as an "
            "array element - with real payloads (lazily mapped zero pages; 2^32 zero bytes are 2^32 valid scalar values), run through the operations of this property and judged by "
            "length, content, code point count, bytes read / required and allocator balance. distinct_nontrivial = scenarios completed",
    .bounds = {"the three lengths x shapes for byte strings, a subset for text strings", "the three lengths x all shapes for byte and text strings"},
    .assumptions = {"payload bytes are zero pages mapped on demand; the library's own copies are resident (at most two scenarios run at a time)",
                    "built -O2 without sanitizers (a 4 GiB scan under ASan takes minutes); the oracle is functional: lengths, content, counts, return values, live blocks",
                    "a hang is a watchdog hit (60 s without progress), confirmed by a solitary re-run"},
    .counters = {[VC_EVAL] = "scenarios_run", [VC_DISTINCT] = "scenarios_completed", [VC_TRANS] = "library_calls_or_bytes_scanned", [VC_TRACES] = "executed_on_implementation",
                 [K_SCEN] = "giant_scenarios", [K_BYTES_PROVIDED] = "payload_bytes_provided", [K_BYTES_COMPARED] = "bytes_compared", [K_CALLS] = "library_calls_judged",
                 [K_SKIPPED] = "scenarios_skipped_for_lack_of_memory"},
    .init = init, .units = units, .unit = unit, .replay = replay};
