#define _GNU_SOURCE
#include "vf_sched.h"

#include <signal.h>
#include <stdio.h>
#include <stdlib.h>
#include <string.h>
#include <sys/mman.h>
#include <ucontext.h>

/* ------------------------------------------------------------------ memory regions */
static unsigned char* arena[VS_MAXT];
static size_t aoff[VS_MAXT];
static unsigned char *shared, *scratch;
static size_t shared_off, scratch_off, frozen_len;
static bool redirect_scratch, frozen_mprotected;
static unsigned char* stk[VS_MAXT];

/* ------------------------------------------------------------------ threads */
static ucontext_t mainctx, ctx[VS_MAXT];
static int nthr, cur = -1;
static bool active, watching, done[VS_MAXT];
static const vs_body* bodies_;

/* ------------------------------------------------------------------ choices */
#define MAXTRACE (1u << 20)
static int* prefix;
static unsigned plen;
static int* trace;
static unsigned char* p_nen;
static unsigned char* p_curen;
static unsigned short* p_pre;
static unsigned ntrace, preempts;
static struct vs_exec E;
static int reduced;

/* ------------------------------------------------------------------ per-execution access table (race detection) */
#define HT_BITS 18
#define HT_SIZE (1u << HT_BITS)
static struct acc { uintptr_t a; unsigned gen; signed char wtid; unsigned char rmask, wmask; } ht[HT_SIZE];
static unsigned gen = 1;
/* persistent census of shared addresses (for the conflict-candidate set and the evidence) */
static struct cen { uintptr_t a; unsigned char rmask, wmask, inP; } *census;
#define CEN_BITS 18
#define CEN_SIZE (1u << CEN_BITS)

static inline unsigned hidx(uintptr_t a, unsigned bits) { return (unsigned)((a * 0x9E3779B97F4A7C15ull) >> (64 - bits)); }
static struct cen* cen_get(uintptr_t a, bool create) {
  unsigned h = hidx(a, CEN_BITS);
  for (unsigned n = 0; n < CEN_SIZE; n++, h = (h + 1) & (CEN_SIZE - 1)) {
    if (census[h].a == a) return &census[h];
    if (census[h].a == 0) {
      if (!create) return NULL;
      census[h].a = a;
      return &census[h];
    }
  }
  return NULL;
}
static void note_access(uintptr_t a, int w) {
  unsigned h = hidx(a, HT_BITS);
  for (;; h = (h + 1) & (HT_SIZE - 1)) {
    if (ht[h].gen != gen) {
      ht[h].a = a;
      ht[h].gen = gen;
      ht[h].wtid = -1;
      ht[h].rmask = ht[h].wmask = 0;
      break;
    }
    if (ht[h].a == a) break;
  }
  struct acc* x = &ht[h];
  unsigned me = 1u << cur;
  bool conflict = w ? ((x->rmask | x->wmask) & ~me) != 0 : (x->wmask & ~me) != 0;
  if (conflict) {
    if (!E.races) {
      E.race_addr = a;
      E.race_t1 = cur;
      E.race_w1 = w;
      unsigned others = (w ? (x->rmask | x->wmask) : x->wmask) & ~me;
      E.race_t2 = __builtin_ctz(others);
      E.race_w2 = (x->wmask >> E.race_t2) & 1;
    }
    E.races++;
  }
  if (w) x->wmask |= me; else x->rmask |= me;
  struct cen* c = cen_get(a, true);
  if (c) { if (w) c->wmask |= me; else c->rmask |= me; }
}

int vs_current(void) { return cur; }
static bool in_region(const void* p, const unsigned char* base, size_t len) { return (const unsigned char*)p >= base && (const unsigned char*)p < base + len; }
bool vs_in_shared(const void* p) { return in_region(p, shared, VS_ARENA); }
size_t vs_shared_used(void) { return shared_off; }
const void* vs_shared_base(void) { return shared; }

static int choose(unsigned nen) {
  int c = ntrace < plen ? prefix[ntrace] : 0;
  if ((unsigned)c >= nen) {
    fprintf(stderr, "vf_sched: replay divergence at choice %u (%d of %u enabled): the execution is not deterministic\n", ntrace, c, nen);
    abort();
  }
  return c;
}
static void sched_point(void) {
  int en[VS_MAXT], nen = 0;
  en[nen++] = cur;
  for (int t = 0; t < nthr; t++)
    if (t != cur && !done[t]) en[nen++] = t;
  if (ntrace >= MAXTRACE) { fprintf(stderr, "vf_sched: trace too long\n"); abort(); }
  p_nen[ntrace] = (unsigned char)nen;
  p_curen[ntrace] = 1;
  p_pre[ntrace] = (unsigned short)preempts;
  int c = nen > 1 ? choose((unsigned)nen) : 0;
  trace[ntrace++] = c;
  E.points++;
  if (c != 0) {
    preempts++;
    int from = cur;
    cur = en[c];
    swapcontext(&ctx[from], &ctx[cur]);
  }
}
static unsigned char* watch_stack_lo;
static unsigned char* watch_stack_hi;
static bool in_any_region(const void* p) {
  if (in_region(p, shared, VS_ARENA) || in_region(p, scratch, VS_ARENA)) return true;
  for (int t = 0; t < VS_MAXT; t++)
    if (in_region(p, arena[t], VS_ARENA) || in_region(p, stk[t], VS_STACK)) return true;
  return false;
}
static void on_access(void* p, unsigned size, int w, void* pc) {
  if (watching) {
    if (w && !((unsigned char*)p >= watch_stack_lo && (unsigned char*)p < watch_stack_hi)) {
      if (!E.nonstack_writes) { E.nonstack_addr = (uintptr_t)p; E.nonstack_pc = (uintptr_t)pc; }
      E.nonstack_writes++;
      if (!in_any_region(p)) { if (!E.global_writes) { E.global_addr = (uintptr_t)p; E.global_pc = (uintptr_t)pc; } E.global_writes++; }
    }
    if (w && in_region(p, shared, frozen_len)) {
      if (!E.frozen_stores) { E.frozen_addr = (uintptr_t)p; E.frozen_pc = (uintptr_t)pc; }
      E.frozen_stores++;
    }
    if (in_region(p, shared, VS_ARENA)) { if (w) E.shared_writes++; else E.shared_reads++; }
    return;
  }
  if (!active || cur < 0) return;
  if (in_region(p, arena[cur], VS_ARENA) || in_region(p, stk[cur], VS_STACK)) { E.private_accesses++; return; }
  for (int t = 0; t < nthr; t++)
    if (t != cur && (in_region(p, arena[t], VS_ARENA) || in_region(p, stk[t], VS_STACK))) E.cross_private++;
  if (w && in_region(p, shared, frozen_len)) {
    if (!E.frozen_stores) { E.frozen_addr = (uintptr_t)p; E.frozen_pc = (uintptr_t)pc; }
    E.frozen_stores++;
  }
  if (w) E.shared_writes++; else E.shared_reads++;
  if (w && !in_any_region(p)) { /* a store to a global / static object: hidden mutable state */
    if (!E.global_writes) { E.global_addr = (uintptr_t)p; E.global_pc = (uintptr_t)pc; }
    E.global_writes++;
  }
  bool pt = !reduced;
  for (unsigned i = 0; i < size; i++) {
    note_access((uintptr_t)p + i, w);
    if (reduced) { struct cen* c = cen_get((uintptr_t)p + i, false); if (c && c->inP) pt = true; }
  }
  if (pt) sched_point();
}
/* the TSan instrumentation ABI (clang 14) */
void __tsan_init(void) {}
void __tsan_func_entry(void* pc) { (void)pc; }
void __tsan_func_exit(void) {}
#define RW(n)                                                                                   \
  void __tsan_read##n(void* p) { on_access(p, n, 0, __builtin_return_address(0)); }              \
  void __tsan_write##n(void* p) { on_access(p, n, 1, __builtin_return_address(0)); }             \
  void __tsan_unaligned_read##n(void* p) { on_access(p, n, 0, __builtin_return_address(0)); }    \
  void __tsan_unaligned_write##n(void* p) { on_access(p, n, 1, __builtin_return_address(0)); }
RW(1) RW(2) RW(4) RW(8) RW(16)
void __tsan_read_range(void* p, unsigned long n) { if (n) on_access(p, n > 64 ? 64 : (unsigned)n, 0, __builtin_return_address(0)); }
void __tsan_write_range(void* p, unsigned long n) { if (n) on_access(p, n > 64 ? 64 : (unsigned)n, 1, __builtin_return_address(0)); }
void __tsan_vptr_update(void** a, void* b) { (void)a; (void)b; }
void __tsan_vptr_read(void** a) { (void)a; }
/* libc memory functions called by library code are redirected here (objcopy): atomic steps whose ranges are reported */
static void range(const void* p, size_t n, int w, void* pc) {
  /* report every 8-byte granule (bounded) so that frozen / race detection sees the whole range */
  const unsigned char* b = p;
  size_t lim = n > 4096 ? 4096 : n;
  for (size_t i = 0; i < lim; i += 8) on_access((void*)(b + i), (unsigned)(lim - i < 8 ? lim - i : 8), w, pc);
}
void* vf_tr_memcpy(void* d, const void* s, size_t n) {
  void* pc = __builtin_return_address(0);
  if (n) { range(s, n, 0, pc); range(d, n, 1, pc); }
  unsigned char* dd = d; const unsigned char* ss = s;
  for (size_t i = 0; i < n; i++) dd[i] = ss[i];
  return d;
}
void* vf_tr_memmove(void* d, const void* s, size_t n) {
  void* pc = __builtin_return_address(0);
  if (n) { range(s, n, 0, pc); range(d, n, 1, pc); }
  return memmove(d, s, n);
}
void* vf_tr_memset(void* d, int c, size_t n) {
  if (n) range(d, n, 1, __builtin_return_address(0));
  unsigned char* dd = d;
  for (size_t i = 0; i < n; i++) dd[i] = (unsigned char)c;
  return d;
}
size_t vf_tr_strlen(const char* s) {
  size_t n = strlen(s);
  range(s, n + 1, 0, __builtin_return_address(0));
  return n;
}

/* ------------------------------------------------------------------ allocator */
static int fail_nth[VS_MAXT];
void vs_fail_nth(int tid, int n) { fail_nth[tid] = n; }
static bool refuse_frozen;
static uint64_t frozen_requests;
void vs_refuse_while_frozen(bool on) { refuse_frozen = on; }
uint64_t vs_requests_while_frozen(void) { return frozen_requests; }
void* vs_malloc(size_t n) {
  if (cur >= 0 && fail_nth[cur] > 0 && --fail_nth[cur] == 0) return NULL; /* thread-private fault injection */
  if (cur < 0 && redirect_scratch) { /* main context while the shared arena is frozen: a request made by the operation under observation */
    frozen_requests++;
    if (refuse_frozen) return NULL;
  }
  /* layout: [size_t n][pad to 16][user...] */
  unsigned char* base; size_t* off;
  if (cur >= 0) { base = arena[cur]; off = &aoff[cur]; }
  else if (redirect_scratch) { base = scratch; off = &scratch_off; }
  else { base = shared; off = &shared_off; }
  size_t need = ((n + 15) & ~(size_t)15) + 16;
  if (*off + need > VS_ARENA) return NULL;
  unsigned char* h = base + *off;
  *(size_t*)h = n;
  *off += need;
  return h + 16;
}
void vs_free(void* p) { (void)p; }
void* vs_realloc(void* p, size_t n) {
  void* q = vs_malloc(n);
  if (q && p) {
    size_t old = *(size_t*)((unsigned char*)p - 16);
    memcpy(q, p, old < n ? old : n);
  }
  return q;
}
void vs_reset_arenas(void) {
  if (frozen_mprotected) vs_unfreeze();
  for (int t = 0; t < VS_MAXT; t++) aoff[t] = 0;
  shared_off = scratch_off = 0;
  frozen_len = 0;
  redirect_scratch = false;
}
void vs_shared_alloc_redirect(bool to_scratch) { redirect_scratch = to_scratch; }
void vs_freeze_shared(bool mprotect_too) {
  frozen_len = shared_off;
  redirect_scratch = true;
  if (mprotect_too) {
    size_t len = (frozen_len + 4095) & ~(size_t)4095;
    if (len && mprotect(shared, len, PROT_READ)) abort();
    frozen_mprotected = true;
  }
}
void vs_unfreeze(void) {
  if (frozen_mprotected) mprotect(shared, VS_ARENA, PROT_READ | PROT_WRITE);
  frozen_mprotected = false;
  frozen_len = 0;
}
static void* map(size_t n) {
  void* p = mmap(NULL, n, PROT_READ | PROT_WRITE, MAP_PRIVATE | MAP_ANONYMOUS, -1, 0);
  if (p == MAP_FAILED) abort();
  return p;
}
void vs_init(void) {
  if (shared) return;
  for (int t = 0; t < VS_MAXT; t++) {
    arena[t] = map(VS_ARENA);
    unsigned char* s = map(VS_STACK + 4096);
    mprotect(s, 4096, PROT_NONE); /* stack overflow = SIGSEGV, attributed by the runner */
    stk[t] = s + 4096;
  }
  shared = map(VS_ARENA);
  scratch = map(VS_ARENA);
  prefix = map(MAXTRACE * sizeof(int));
  trace = map(MAXTRACE * sizeof(int));
  p_nen = map(MAXTRACE);
  p_curen = map(MAXTRACE);
  p_pre = map(MAXTRACE * sizeof(unsigned short));
  census = map(CEN_SIZE * sizeof *census);
}

/* ------------------------------------------------------------------ running one schedule */
static void tramp(int t) {
  bodies_[t](t);
  done[t] = true;
  int en[VS_MAXT], nen = 0;
  for (int k = 0; k < nthr; k++)
    if (!done[k]) en[nen++] = k;
  if (nen == 0) {
    cur = -1;
    setcontext(&mainctx);
  }
  p_nen[ntrace] = (unsigned char)nen;
  p_curen[ntrace] = 0;
  p_pre[ntrace] = (unsigned short)preempts;
  int c = nen > 1 ? choose((unsigned)nen) : 0;
  trace[ntrace++] = c;
  cur = en[c];
  setcontext(&ctx[cur]);
}
static bool run_once(vs_setup_fn setup, vs_check_fn check) {
  vs_reset_arenas();
  gen++;
  if (gen == 0) { memset(ht, 0, sizeof ht); gen = 1; }
  memset(&E, 0, sizeof E);
  ntrace = 0;
  preempts = 0;
  memset(done, 0, sizeof done);
  cur = -1;
  active = false;
  if (setup) setup();
  for (int t = 0; t < nthr; t++) {
    getcontext(&ctx[t]);
    ctx[t].uc_stack.ss_sp = stk[t];
    ctx[t].uc_stack.ss_size = VS_STACK;
    ctx[t].uc_link = NULL;
    makecontext(&ctx[t], (void (*)(void))tramp, 1, t);
  }
  active = true;
  p_nen[ntrace] = (unsigned char)nthr;
  p_curen[ntrace] = 0;
  p_pre[ntrace] = 0;
  int c = nthr > 1 ? choose((unsigned)nthr) : 0;
  trace[ntrace++] = c;
  cur = c;
  swapcontext(&mainctx, &ctx[cur]);
  active = false;
  cur = -1;
  E.preemptions = preempts;
  E.ntrace = ntrace;
  E.trace = trace;
  return check ? check(&E) : true;
}

static struct vs_stats* ST;
static uint64_t maxexec;
static bool stop_;
static vs_setup_fn setup_;
static vs_check_fn check_;
static int bound_;

static void explore(const int* pre, unsigned n) {
  if (stop_) return;
  if (ST->executions >= maxexec) { ST->capped = true; stop_ = true; return; }
  memcpy(prefix, pre, n * sizeof(int));
  plen = n;
  bool ok = run_once(setup_, check_);
  ST->executions++;
  ST->points += E.points;
  if (E.points > ST->max_points) ST->max_points = E.points;
  if (E.races) ST->executions_with_race++;
  if (!ok) { stop_ = true; return; }
  unsigned T = ntrace;
  int* tr = malloc(T * sizeof(int));
  unsigned char* ne = malloc(T);
  unsigned char* ce = malloc(T);
  unsigned short* pb = malloc(T * sizeof(unsigned short));
  memcpy(tr, trace, T * sizeof(int));
  memcpy(ne, p_nen, T);
  memcpy(ce, p_curen, T);
  memcpy(pb, p_pre, T * sizeof(unsigned short));
  int* p2 = malloc((T + 1) * sizeof(int));
  for (unsigned i = n; i < T && !stop_; i++) {
    int cost = pb[i] + (ce[i] ? 1 : 0); /* switching away from a runnable thread is a preemption */
    if (cost > bound_) continue;
    for (int alt = 1; alt < ne[i] && !stop_; alt++) {
      memcpy(p2, tr, i * sizeof(int));
      p2[i] = alt;
      explore(p2, i + 1);
    }
  }
  free(tr); free(ne); free(ce); free(pb); free(p2);
}
static void census_stats(struct vs_stats* out) {
  out->distinct_shared_addrs = out->shared_written_addrs = 0;
  for (unsigned i = 0; i < CEN_SIZE; i++)
    if (census[i].a) {
      out->distinct_shared_addrs++;
      if (census[i].wmask) out->shared_written_addrs++;
    }
}
void vs_explore(int nthreads, const vs_body* bodies, int bound, int flags, uint64_t max_exec, vs_setup_fn setup, vs_check_fn check, struct vs_stats* out) {
  vs_init();
  memset(out, 0, sizeof *out);
  nthr = nthreads;
  bodies_ = bodies;
  ST = out;
  maxexec = max_exec;
  setup_ = setup;
  check_ = check;
  stop_ = false;
  memset(census, 0, CEN_SIZE * sizeof *census);
  reduced = 0;
  if (flags & VS_REDUCED) {
    /* census run: default schedule (each thread to completion in turn), all shared accesses recorded */
    reduced = 1; /* no candidate yet: no scheduling points except thread start/exit */
    bound_ = 0;
    explore(NULL, 0);
    for (int round = 0; round < 4 && !stop_; round++) {
      unsigned added = 0;
      for (unsigned i = 0; i < CEN_SIZE; i++)
        if (census[i].a && !census[i].inP && census[i].wmask && __builtin_popcount(census[i].rmask | census[i].wmask) >= 2) { census[i].inP = 1; added++; }
      if (!added && round > 0) break;
      for (int b = 0; b <= bound && !stop_; b++) {
        bound_ = b;
        explore(NULL, 0);
        if (!stop_) out->bound_completed = (unsigned)b;
      }
      if (!added) break;
    }
  } else {
    for (int b = 0; b <= bound && !stop_; b++) {
      bound_ = b;
      explore(NULL, 0);
      if (!stop_) out->bound_completed = (unsigned)b;
    }
  }
  census_stats(out);
}
void vs_run_schedule(int nthreads, const vs_body* bodies, const int* choices, unsigned n, vs_setup_fn setup, vs_check_fn check) {
  vs_init();
  nthr = nthreads;
  bodies_ = bodies;
  reduced = 0;
  memcpy(prefix, choices, n * sizeof(int));
  plen = n;
  run_once(setup, check);
}
void vs_watch_begin(void) {
  unsigned char here;
  memset(&E, 0, sizeof E);
  watch_stack_lo = &here - (1u << 20);
  watch_stack_hi = &here + (1u << 16);
  watching = true;
}
struct vs_exec vs_watch_end(void) {
  watching = false;
  return E;
}
