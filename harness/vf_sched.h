/* Explorer E5: a deterministic user-level scheduler that owns every interleaving point.
 * The library is compiled with the compiler's ThreadSanitizer *instrumentation* only and linked against this
 * runtime instead of TSan's: every load and store of the real code calls __tsan_read/writeN below, which
 *   - classifies the address (thread-private arena / stack, shared, frozen),
 *   - records it for conflict (data race) detection,
 *   - and, if it is a scheduling point, lets the explorer decide which thread runs next.
 * Threads are coroutines on one OS thread, so a schedule is a list of integers and replays bit for bit. */
#ifndef VF_SCHED_H
#define VF_SCHED_H
#include <stdbool.h>
#include <stddef.h>
#include <stdint.h>

#define VS_MAXT 3
#define VS_ARENA (1u << 20)
#define VS_STACK (512u << 10)
typedef void (*vs_body)(int tid);

struct vs_exec {             /* what one complete execution observed */
  unsigned points;           /* scheduling points met */
  unsigned preemptions;
  unsigned races;            /* conflicting access pairs (different threads, overlapping bytes, >= 1 store) */
  uintptr_t race_addr;
  int race_t1, race_t2, race_w1, race_w2;
  unsigned frozen_stores;    /* stores into the frozen region */
  uintptr_t frozen_addr, frozen_pc;
  unsigned cross_private;    /* access to another thread's private arena/stack */
  unsigned global_writes;    /* stores to memory that is neither an arena nor a stack: global / static objects */
  uintptr_t global_addr, global_pc;
  unsigned nonstack_writes;  /* watch mode: stores outside the caller's stack */
  uintptr_t nonstack_addr, nonstack_pc;
  uint64_t shared_reads, shared_writes, private_accesses;
  unsigned ntrace;           /* length of the choice sequence */
  const int* trace;
};
struct vs_stats {
  uint64_t executions, points, max_points, executions_with_race, distinct_shared_addrs, shared_written_addrs;
  unsigned bound_completed;
  bool capped;
};
typedef void (*vs_setup_fn)(void);                       /* main context, before threads start (arenas already reset) */
typedef bool (*vs_check_fn)(const struct vs_exec* e);    /* main context, after all threads ended; false = violation already reported */

void vs_init(void);
/* allocator to install with cbor_set_allocs: per-thread bump arenas (main context uses the shared arena) */
void* vs_malloc(size_t n);
void* vs_realloc(void* p, size_t n);
void vs_free(void* p);
void vs_reset_arenas(void);
void vs_fail_nth(int tid, int n); /* thread tid's n-th next allocation request is refused (0 = off) */
void vs_shared_alloc_redirect(bool to_scratch);
void vs_refuse_while_frozen(bool on);  /* main context: every request made while the shared arena is frozen is refused */
uint64_t vs_requests_while_frozen(void); /* running count of such requests */ /* main context: allocate from a second, never frozen, shared arena */
/* frozen region = the part of the shared arena used so far */
void vs_freeze_shared(bool mprotect_too);
void vs_unfreeze(void);
bool vs_in_shared(const void* p);
size_t vs_shared_used(void);
const void* vs_shared_base(void);
/* single-threaded store watching (C18 a): run fn in the main context with accesses classified */
void vs_watch_begin(void);
struct vs_exec vs_watch_end(void);
/* exploration */
enum { VS_REDUCED = 1 /* scheduling points only at conflict candidates */ };
void vs_explore(int nthreads, const vs_body* bodies, int bound, int flags, uint64_t max_exec, vs_setup_fn setup, vs_check_fn check, struct vs_stats* out);
/* re-run one schedule (choice sequence); missing choices default to 0 */
void vs_run_schedule(int nthreads, const vs_body* bodies, const int* choices, unsigned n, vs_setup_fn setup, vs_check_fn check);
int vs_current(void); /* -1 = main context */
#endif
