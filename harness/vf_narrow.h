/* Pre-included (-include) when compiling the REAL library sources at a narrow size_t, so that C20's
 * for-all over operand pairs becomes a finite enumeration.  The libc headers are included first with the
 * true size_t; afterwards every `size_t` the library spells is VF_NARROW_T. */
#ifndef VF_NARROW_H
#define VF_NARROW_H
#include <assert.h>
#include <inttypes.h>
#include <math.h>
#include <stdbool.h>
#include <stddef.h>
#include <stdint.h>
#include <stdio.h>
#include <stdlib.h>
#include <string.h>
typedef VF_NARROW_T vf_size_t;
#define size_t vf_size_t
#undef SIZE_MAX
#define SIZE_MAX ((vf_size_t)-1)
#endif
