/* Common API between the sharded runner (vf_run.c) and the per-property checks.
 * Every check is one C file that fills in `vf_the_check`. */
#ifndef VF_H
#define VF_H
#include <stdarg.h>
#include <stdbool.h>
#include <stddef.h>
#include <stdint.h>
#include <stdio.h>
#include <stdlib.h>
#include <string.h>

#define VF_MAXCNT 48
/* fixed counter slots */
enum { VC_EVAL = 0, VC_DISTINCT = 1, VC_TRANS = 2, VC_TRACES = 3, VC_USER = 4 };

struct vf_check {
  const char* property;      /* "C02" */
  const char* level;         /* evidence level: exploration | fault_enumeration | model_checking */
  const char* rule;          /* how cases are enumerated / what counts as distinct non-trivial */
  const char* bounds[2];     /* per tier: human readable statement of the bound completed */
  const char* assumptions[12];
  const char* counters[VF_MAXCNT]; /* names of counters (index = slot); NULL = unused */
  void (*init)(void);               /* after tier is known, before forking (build tables) */
  uint64_t (*units)(void);          /* number of independent work units */
  void (*unit)(uint64_t u);         /* run all cases of unit u */
  void (*replay)(const char* tag, const uint8_t* data, size_t len); /* run ONE case verbosely */
  void (*finish)(void);             /* parent, after all workers: cross-worker checks (may vf_fail) */
  int state_bits;                   /* log2 capacity of the per-worker distinct-state set (0 = 16) */
  int states_counter;               /* if non-zero: evidence `states` = counter slot (states_counter - 1): states distinct by construction */
};
extern struct vf_check vf_the_check;

extern int vf_tier;       /* 0 quick, 1 thorough */
extern int vf_replaying;  /* 1 while running vf_the_check.replay */
extern int vf_verbose;
extern uint64_t vf_seed;  /* recorded only; nothing is random */

/* publish the case about to be run (cheap memcpy into this worker's shared slot) */
void vf_case(const char* tag, const void* data, size_t len);
/* record a (non-crash) violation of the property on the current case.
 * sig: stable signature of the failing case for the known-findings file (NULL = tag:hex). */
void vf_fail(const char* sig, const char* fmt, ...) __attribute__((format(printf, 2, 3)));
void vf_cnt(int slot, uint64_t n);
uint64_t vf_cnt_get_local(int slot);
void vf_state(uint64_t h);   /* distinct abstract states (merged across workers) */
void vf_outcome(uint64_t h); /* distinct observed outcomes (merged across workers) */
void vf_sample(const char* fmt, ...) __attribute__((format(printf, 1, 2)));
void vf_extra(const char* key, const char* fmt, ...) __attribute__((format(printf, 2, 3))); /* extra coverage key (string), parent or init only */
void vf_not_exhaustive(const char* why); /* a cap was hit */
double vf_now(void);
double vf_deadline_left(void);
int vf_peer_crashed(void);      /* a sibling worker died: cooperative phases (barriers) must give up */
extern int vf_nworkers_hint;    /* number of worker processes the runner will start */ /* seconds until the global deadline of this run */

static inline uint64_t vf_mix(uint64_t h, uint64_t v) {
  h ^= v + 0x9E3779B97F4A7C15ull + (h << 6) + (h >> 2);
  h *= 0xff51afd7ed558ccdull;
  h ^= h >> 33;
  return h;
}
static inline uint64_t vf_hash(const void* p, size_t n, uint64_t h) {
  const uint8_t* b = (const uint8_t*)p;
  h ^= 0xcbf29ce484222325ull;
  for (size_t i = 0; i < n; i++) {
    h ^= b[i];
    h *= 0x100000001b3ull;
  }
  return vf_mix(h, n);
}
/* hex helpers */
size_t vf_hex(char* out, size_t cap, const void* p, size_t n);
size_t vf_unhex(uint8_t* out, size_t cap, const char* s);

/* little growable string buffer used by walkers / renderers */
typedef struct {
  char* s;
  size_t n, cap;
} vf_sb;
void vf_sb_reset(vf_sb* b);
void vf_sb_printf(vf_sb* b, const char* fmt, ...) __attribute__((format(printf, 2, 3)));
void vf_sb_hex(vf_sb* b, const void* p, size_t n);
#endif
