/* Tree-space explorer: every tree the decoder returns on the enumerated input space plus every
 * tree of the constructed-tree grammar (vf_trees.c).  One source, several properties:
 *   -DPROP=3   C03: cbor_serialize == reference encoding of the walked tree; load(serialize) == tree; serialize stable
 *   -DPROP=7   C07: size / serialize(n for every n in 0..size+2) / serialize_alloc agree; + every encoder x value x n in 0..10
 *   -DPROP=11  C11: cbor_copy equal, disjoint, refcount 1 everywhere, source bit-identical; either tree releasable alone
 *   -DPROP=14  C14: load(x || y) == load(x) for every accepted x and every enumerated y; concatenations split exactly */
#define _GNU_SOURCE
#include <inttypes.h>

#include "cbor.h"
#include "vf.h"
#include "vf_alloc.h"
#include "vf_enum.h"
#include "vf_rec.h"
#include "vf_ref.h"
#include "vf_trees.h"
#include "vf_walk.h"

#ifndef PROP
#error "compile with -DPROP=3, 7, 11 or 14"
#endif
#define VF_L CBOR_MAX_STACK_SIZE

enum {
  K_DECODED = VC_USER, K_CONSTRUCTED, K_OUTSIDE, K_NODES, K_SHARED, K_PARTIAL, K_BUFSIZES, K_BYTES_CMP, K_ROUNDTRIPS, K_NAN, K_SUFFIXES, K_CONCATS, K_ITEMS_SPLIT, K_CORPUS, K_WIDE, K_LOSSY, K_ZERO_TAILS,
  K_ENC0 /* PROP 7: encoder counters live in chk_encode.c slots */
};
static unsigned bn_max, dfs_k, cdepth;
static uint64_t bn_units, dfs_units, con_units, enc_units, cat_units, cor_units, wide_units, dfs1_units, zero_units, c14_cor_units;
static vf_sb why, sb2;

#if PROP == 7
uint64_t vf_encoders_units(void);
void vf_encoders_unit(uint64_t u);
void vf_encoders_init(void);
void vf_encoders_replay(const uint8_t* d, size_t len);
#endif

static bool has_shared(const rnode* t) { /* any node with refcount > 1 */
  if (t->refcount > 1) return true;
  for (size_t i = 0; i < t->nkids; i++)
    if (has_shared(t->kids[i])) return true;
  return false;
}
static bool has_partial(const rnode* t) {
  if ((t->kind == RK_ARRAY && t->allocated != t->nkids) || (t->kind == RK_MAP && t->allocated != t->nkids / 2)) return true;
  for (size_t i = 0; i < t->nkids; i++)
    if (has_partial(t->kids[i])) return true;
  return false;
}
static bool has_nan(const rnode* t) {
  if (t->kind == RK_FLOAT && t->isnan) return true;
  for (size_t i = 0; i < t->nkids; i++)
    if (has_nan(t->kids[i])) return true;
  return false;
}
static bool has_float(const rnode* t) {
  if (t->kind == RK_FLOAT) return true;
  for (size_t i = 0; i < t->nkids; i++)
    if (has_float(t->kids[i])) return true;
  return false;
}
static bool has_unassigned_simple(const rnode* t) {
  if (t->kind == RK_SIMPLE && !(t->val >= 20 && t->val <= 23)) return true;
  for (size_t i = 0; i < t->nkids; i++)
    if (has_unassigned_simple(t->kids[i])) return true;
  return false;
}
static int cmp_ptr(const void* a, const void* b) {
  uintptr_t x = (uintptr_t) * (void* const*)a, y = (uintptr_t) * (void* const*)b;
  return x < y ? -1 : x > y;
}

/* ------------------------------------------------------------------------------------------------
 * judge one tree; takes over the caller's reference */
static void judge_tree(cbor_item_t* t, bool distinct) {
  vf_cnt(VC_EVAL, 1);
  vf_cnt(VC_TRACES, 1);
  ref_arena_reset();
  rnode* w = vf_walk(t);
  vf_cnt(K_NODES, vf_walk_nodes);
  vf_cnt(VC_TRANS, vf_walk_nodes);
  vf_state(ref_tree_hash(w) >> 20 << 20 | (w->kind << 4) | (vf_walk_nodes > 15 ? 15 : vf_walk_nodes));
  if (has_shared(w)) vf_cnt(K_SHARED, 1);
  if (has_partial(w)) vf_cnt(K_PARTIAL, 1);
  if (has_nan(w)) vf_cnt(K_NAN, 1);
  static uint8_t refb[(1 << 17) + 64];
#if PROP == 7 || PROP == 11
  ref_lossy_half_ok = true;
#endif
  size_t el = ref_encode(w, refb, sizeof refb);
  bool lossy = ref_lossy_halves != 0;
  if (lossy) vf_cnt(K_LOSSY, 1);
  if (el == 0 || el > sizeof refb) { /* outside the property's domain (cannot happen for these generators) */
    vf_cnt(K_OUTSIDE, 1);
    cbor_decref(&t);
    return;
  }
#if PROP == 3
  if (has_unassigned_simple(w)) { /* C03 restricts simple values to the assigned ones (the decoder cannot read the others back) */
    vf_cnt(K_OUTSIDE, 1);
    cbor_decref(&t);
    return;
  }
#endif
  if (distinct && vf_walk_nodes >= 2) vf_cnt(VC_DISTINCT, 1);
  if (vf_walk_nodes >= 3 && (vf_cnt_get_local(VC_EVAL) & 0xffff) == 9) {
    char hx[100];
    vf_sb_reset(&sb2);
    ref_render(w, &sb2);
    vf_hex(hx, sizeof hx, refb, el < 40 ? el : 40);
    vf_sample("tree %s (%zu nodes%s%s) -> reference encoding %s%s (%zu bytes)", sb2.s, vf_walk_nodes, has_shared(w) ? ", shared sub-items" : "", has_partial(w) ? ", partially filled definite container" : "", hx, el > 40 ? ".." : "", el);
  }
  uint8_t* end = vf_guard_end();
  size_t sz = cbor_serialized_size(t);

#if PROP == 3
  if (sz != el) vf_fail(NULL, "cbor_serialized_size = %zu, the RFC encoding of the tree has %zu bytes", sz, el);
  uint8_t* o = end - el;
  memset(o, 0xA5, el);
  size_t wr = cbor_serialize(t, o, el);
  vf_cnt(K_BYTES_CMP, 1);
  if (wr != el || memcmp(o, refb, el)) {
    char g[200], x[200];
    vf_hex(g, sizeof g, o, wr < 90 ? wr : 90);
    vf_hex(x, sizeof x, refb, el < 90 ? el : 90);
    vf_sb_reset(&sb2);
    ref_render(w, &sb2);
    vf_fail(NULL, "cbor_serialize wrote %zu bytes %s; RFC 8949 encoding of %s is %s", wr, g, sb2.s, x);
  } else {
    /* loading those bytes consumes all of them and yields an equal tree; serializing that again is stable */
    struct cbor_load_result res;
    static uint8_t copyb[(1 << 17) + 64];
    memcpy(copyb, o, el);
    uint8_t* in = vf_guard_put(copyb, el);
    cbor_item_t* t2 = cbor_load(in, el, &res);
    vf_cnt(K_ROUNDTRIPS, 1);
    if (!t2)
      vf_fail(NULL, "cbor_load rejects the library's own serialization (code %d at %zu)", res.error.code, res.error.position);
    else {
      if (res.read != el) vf_fail(NULL, "loading the serialization consumed %zu of %zu bytes", res.read, el);
      rnode* w2 = vf_walk(t2);
      vf_sb_reset(&why);
      if (!ref_equal(w, w2, RC_DEF_FULL, &why)) vf_fail(NULL, "load(serialize(t)) differs from t: %s", why.s);
      static uint8_t again[(1 << 17) + 64];
      size_t w3 = cbor_serialize(t2, again, sizeof again);
      if (w3 != el || memcmp(again, copyb, el)) vf_fail(NULL, "serializing the re-loaded tree gives different bytes");
      cbor_decref(&t2);
    }
  }
#endif

#if PROP == 7
  if (sz != el) vf_fail(NULL, "cbor_serialized_size = %zu, encoding has %zu bytes", sz, el);
  if (lossy) {
    /* the content of a half that cannot hold its value is the library's choice; the property is about agreement: take the bytes of one
     * amply sized call as "those bytes" after checking its return value against the size */
    static uint8_t big[(1 << 17) + 64];
    size_t bw = cbor_serialize(t, big, sizeof big);
    if (bw != el) vf_fail(NULL, "cbor_serialize into an ample buffer returned %zu; cbor_serialized_size = %zu, the item tree determines %zu bytes", bw, sz, el);
    else memcpy(refb, big, el);
  }
  for (size_t n = 0; n <= sz + 2; n++) {
    if (sz > 600 && n > 300 && n + 4 < sz) n = sz - 4; /* big strings: every n up to 300, then the boundary region */
    uint8_t* o = end - n;
    memset(o - 16, 0x5C, 16);
    memset(o, 0xA5, n);
    size_t wr = cbor_serialize(t, o, n);
    vf_cnt(K_BUFSIZES, 1);
    if (n >= sz) {
      if (wr != sz) vf_fail(NULL, "cbor_serialize with n = %zu >= size %zu returned %zu", n, sz, wr);
      else if (memcmp(o, refb, sz)) vf_fail(NULL, "cbor_serialize with n = %zu wrote different bytes than with n = size", n);
    } else if (wr != 0)
      vf_fail(NULL, "cbor_serialize with n = %zu < size %zu returned %zu instead of 0", n, sz, wr);
    for (int i = 1; i <= 16; i++)
      if (o[-i] != 0x5C) {
        vf_fail(NULL, "cbor_serialize wrote before the start of the buffer");
        break;
      }
  }
  /* buffers far larger than the item: n = 65536 .. 65536+size+8 puts every float of the tree in front of every remaining length 2^16 + r, r < 9
   * (a remaining length that is masked or narrowed to 16 bits would read as "no room") */
  if (sz <= 64 && has_float(w)) {
    static uint8_t bigb[(1 << 16) + 256];
    for (size_t n = 65536; n <= 65536 + sz + 8; n++) {
      memset(bigb, 0xA5, sz + 16);
      size_t wr = cbor_serialize(t, bigb, n);
      vf_cnt(K_BUFSIZES, 1);
      if (wr != sz || memcmp(bigb, refb, sz)) { vf_fail(NULL, "cbor_serialize with n = %zu (size %zu) returned %zu / wrote other bytes than with n = size", n, sz, wr); break; }
    }
  }
  {
    unsigned char* ab = (unsigned char*)0x1;
    size_t absz = 12345;
    uint64_t live0 = va.live;
    size_t aw = cbor_serialize_alloc(t, &ab, &absz);
    if (aw != sz || absz != sz || !ab) vf_fail(NULL, "cbor_serialize_alloc returned %zu, *size %zu, buffer %p; size is %zu", aw, absz, (void*)ab, sz);
    else {
      if (!va_is_live(ab)) vf_fail(NULL, "cbor_serialize_alloc buffer does not come from the installed allocator");
      else if (va_block_size(ab) != sz) vf_fail(NULL, "cbor_serialize_alloc buffer has %zu bytes, size is %zu", va_block_size(ab), sz);
      else if (memcmp(ab, refb, sz)) vf_fail(NULL, "cbor_serialize_alloc bytes differ from cbor_serialize");
      va_free(ab);
    }
    if (va.live != live0) vf_fail(NULL, "cbor_serialize_alloc left %" PRIu64 " extra blocks", va.live - live0);
    /* NULL size pointer is documented as allowed */
    ab = NULL;
    aw = cbor_serialize_alloc(t, &ab, NULL);
    if (aw != sz || !ab) vf_fail(NULL, "cbor_serialize_alloc(.., NULL) returned %zu", aw);
    if (ab) va_free(ab);
  }
#endif

#if PROP == 11
  {
    static uint8_t srcbytes[(1 << 17) + 64];
    size_t sl = cbor_serialize(t, srcbytes, sizeof srcbytes);
    uint64_t lim = va_serial(), img0 = va_image_hash_before(lim), live0 = va.live;
    cbor_item_t* c = cbor_copy(t);
    if (!c) {
      vf_fail(NULL, "cbor_copy returned NULL although no allocation was refused");
      cbor_decref(&t);
      return;
    }
    if (va_image_hash_before(lim) != img0) vf_fail(NULL, "cbor_copy modified the source tree (contents or reference counts)");
    rnode* wc = vf_walk(c);
    vf_sb_reset(&why);
    if (!ref_equal(w, wc, RC_REFCOUNT1, &why)) vf_fail(NULL, "copy differs from source / is not solely owned: %s", why.s);
    static uint8_t cb[(1 << 17) + 64];
    size_t cl = cbor_serialize(c, cb, sizeof cb);
    if (cl != sl || memcmp(cb, srcbytes, sl)) vf_fail(NULL, "copy serializes to different bytes than the source");
    /* no node and no buffer shared: address sets disjoint */
    static const void* A[1 << 14];
    static const void* B[1 << 14];
    size_t na = vf_collect_blocks(w, A, 1 << 14), nb = vf_collect_blocks(wc, B, 1 << 14);
    qsort(A, na, sizeof A[0], cmp_ptr);
    qsort(B, nb, sizeof B[0], cmp_ptr);
    for (size_t i = 0, j = 0; i < na && j < nb;) {
      if (A[i] == B[j] && A[i] != NULL) {
        vf_fail(NULL, "copy shares block %p with the source", A[i]);
        break;
      }
      if ((uintptr_t)A[i] < (uintptr_t)B[j]) i++; else j++;
    }
    for (size_t j = 0; j + 1 < nb; j++)
      if (B[j] == B[j + 1] && B[j] != NULL) {
        /* the same block reachable twice inside the copy = a shared sub-item survived */
        vf_fail(NULL, "copy contains a shared sub-item (block %p reachable twice)", B[j]);
        break;
      }
    /* modify, then release the copy: the source must not notice */
    if (cbor_isa_array(c) && cbor_array_is_indefinite(c)) {
      cbor_item_t* x = cbor_build_uint8(99);
      if (x) {
        (void)cbor_array_push(c, x);
        cbor_decref(&x);
      }
    } else if (cbor_isa_array(c) && cbor_array_size(c) > 0) {
      cbor_item_t* x = cbor_build_uint8(99);
      if (x) {
        (void)cbor_array_replace(c, 0, x);
        cbor_decref(&x);
      }
    }
    cbor_decref(&c);
    if (c != NULL) vf_fail(NULL, "copy not freed by one decref");
    if (va.live != live0) vf_fail(NULL, "releasing the copy left %" PRId64 " blocks", (int64_t)(va.live - live0));
    if (va_image_hash_before(lim) != img0) vf_fail(NULL, "modifying/releasing the copy changed the source");
    /* symmetric: release the source first, the (fresh) copy must stay intact (ASan: no use-after-free) */
    cbor_item_t* c2 = cbor_copy(t);
    cbor_decref(&t);
    if (t != NULL) vf_fail(NULL, "source not freed by the caller's decref after copying (copy took a reference?)");
    if (c2) {
      size_t l2 = cbor_serialize(c2, cb, sizeof cb);
      if (l2 != sl || memcmp(cb, srcbytes, sl)) vf_fail(NULL, "copy changed after the source was released");
      cbor_decref(&c2);
    } else
      vf_fail(NULL, "second cbor_copy returned NULL");
    if (va.live != 0) {
      vf_fail(NULL, "%" PRIu64 " blocks live after releasing source and copy", va.live);
      va_release_all();
    }
    if (va.errors) vf_fail(NULL, "allocator protocol violated: %s", va.last_error);
    return;
  }
#endif
  cbor_decref(&t);
  if (t != NULL) vf_fail(NULL, "tree not released by its owner's decref");
  if (va.live) {
    vf_fail(NULL, "%" PRIu64 " blocks live after release", va.live);
    va_release_all();
  }
  if (va.errors) vf_fail(NULL, "allocator protocol violated: %s", va.last_error);
}

/* ------------------------------------------------------------------------------------------------ sources */
static void from_bytes(const uint8_t* b, size_t n, bool distinct) {
  vf_case(va_cap > (1u << 20) ? "bytes-corpus" : "bytes", b, n); /* the tag carries the allocator cap the case ran under */
  va_reset();
  struct cbor_load_result res;
  uint8_t* in = vf_guard_put(b, n);
  cbor_item_t* it = cbor_load(in, n, &res);
  if (!it) {
    if (va.live) va_release_all();
    return;
  }
  vf_cnt(K_DECODED, 1);
  judge_tree(it, distinct);
}
#if PROP != 14
static void bn_cb(const uint8_t* b, size_t n, void* ctx) {
  (void)ctx;
  from_bytes(b, n, true);
}
static void seq_cb(const vf_seq* s, void* ctx) {
  (void)ctx;
  if (s->status != VD_ACCEPT) return;
  uint8_t buf[12 * 16];
  memcpy(buf, s->bytes, s->n);
  from_bytes(buf, s->n, s->n > bn_max);
}
#endif
static void constructed_unit(uint64_t u) {
  va_cap = 1 << 20;
  vt_choices ch;
  memset(&ch, 0, sizeof ch);
  unsigned want[3] = {(unsigned)(u / 128), (unsigned)(u / 16 % 8), (unsigned)(u % 16)};
  for (int i = 0; i < 3; i++) ch.c[i] = (uint8_t)want[i];
  ch.fixed = 3;
  va_reset();
  cbor_item_t* t = vt_build(&ch, (int)cdepth);
  /* the unit exists only if its three leading choices are within the arities met on this path */
  bool valid = true;
  for (unsigned i = 0; i < 3; i++)
    if (i < ch.n ? want[i] >= ch.arity[i] : want[i] != 0) valid = false;
  if (t && !valid) cbor_decref(&t);
  if (!valid) {
    va_release_all();
    return;
  }
  for (;;) {
    vf_case("ctree", ch.c, VT_MAXCHOICES);
    if (t) {
      vf_cnt(K_CONSTRUCTED, 1);
      judge_tree(t, true);
    } else
      vf_fail(NULL, "constructed-tree builder failed without a refused allocation");
    if (!vt_next(&ch)) break;
    va_reset();
    t = vt_build(&ch, (int)cdepth);
  }
}

#if PROP == 14
/* ------------------------------------------------------------------------------------------------ C14 */
static struct { uint8_t b[16]; size_t n; } Y[700];
static size_t ny;
static void add_y(const uint8_t* b, size_t n) {
  if (ny < 700 && n <= 16) {
    memcpy(Y[ny].b, b, n);
    Y[ny++].n = n;
  }
}
static void c14_x(const uint8_t* x, size_t n) {
  /* x is an acceptable item encoding iff the reference decoder accepts it and consumes it entirely */
  rdecode rd;
  ref_arena_reset();
  ref_decode(x, n, VF_L, va_cap, NULL, &rd);
  if (!rd.ok || rd.read != n) return;
  rnode* want = rd.tree; /* lives in the reference arena until the next reset: no reset below */
  va_reset();
  struct cbor_load_result r0;
  uint8_t* in = vf_guard_put(x, n);
  cbor_item_t* t0 = cbor_load(in, n, &r0);
  bool alone_ok = t0 != NULL;
  vf_cnt(K_DECODED, 1);
  vf_cnt(VC_DISTINCT, 1);
  vf_state(ref_tree_hash(want));
  if (t0 && r0.read != n) vf_fail(NULL, "x alone: read = %zu of %zu", r0.read, n);
  if (t0) cbor_decref(&t0);
  static uint8_t cat[(1 << 15) + 64];
  if (n > (1 << 15)) return;
  memcpy(cat, x, n);
  for (size_t i = 0; i < ny; i++) {
    memcpy(cat + n, Y[i].b, Y[i].n);
    size_t tot = n + Y[i].n;
    vf_case("xy", cat, tot);
    vf_cnt(VC_EVAL, 1);
    vf_cnt(VC_TRACES, 1);
    vf_cnt(K_SUFFIXES, 1);
    vf_cnt(VC_TRANS, 1);
    struct cbor_load_result r1;
    uint8_t* in1 = vf_guard_put(cat, tot);
    cbor_item_t* t1 = cbor_load(in1, tot, &r1);
    if (!t1) {
      if (alone_ok) vf_fail(NULL, "x decodes alone but x||y is rejected (code %d at %zu)", r1.error.code, r1.error.position);
    } else {
      if (!alone_ok) vf_fail(NULL, "x||y decodes but x alone is rejected (code %d at %zu): the result depends on what follows the item", r0.error.code, r0.error.position);
      if (r1.read != n) vf_fail(NULL, "bytes read = %zu with a suffix, the item is %zu bytes long", r1.read, n);
      rnode* w1 = vf_walk(t1);
      vf_sb_reset(&why);
      if (!ref_equal(want, w1, RC_REFCOUNT1 | RC_DEF_FULL, &why)) vf_fail(NULL, "tree of x changes when y follows: %s", why.s);
      cbor_decref(&t1);
    }
  }
  if (va.live) {
    vf_fail(NULL, "leak");
    va_release_all();
  }
}
static void c14_seq_cb(const vf_seq* s, void* ctx) {
  (void)ctx;
  if (s->status != VD_ACCEPT) return;
  uint8_t buf[12 * 16];
  memcpy(buf, s->bytes, s->n);
  c14_x(buf, s->n);
}
static void c14_bn_cb(const uint8_t* b, size_t n, void* ctx) {
  (void)ctx;
  c14_x(b, n);
}
/* x ending in a zero-length / zero-count item written with a longer-than-needed head (98 00, 9a 00000000, bb 00.., 5a 00000000 ..): complete at
 * its own head, so whatever the decoder does "for the first element" looks at y. Prefix: every sequence of <= 2 heads of Sigma' that leaves
 * the reference waiting for exactly such an item (or nothing at all) */
static const char* ZERO_HEX[] = {"9800", "990000", "9a00000000", "9b0000000000000000", "b800", "b90000", "ba00000000", "bb0000000000000000", "5800", "590000", "5a00000000",
                                 "5b0000000000000000", "7800", "790000", "7a00000000", "7b0000000000000000", "d81880", "c2a0"};
#define NZERO (sizeof ZERO_HEX / sizeof ZERO_HEX[0])
static void zero_unit(uint64_t u) {
  size_t nt = VF_SIGMA1.ntoks;
  /* u in [0, (nt+1)^2): two optional prefix heads */
  size_t a = u / (nt + 1), b = u % (nt + 1);
  if (a == nt && b != nt) return; /* (none, t) is enumerated as (t, none) */
  uint8_t x[64];
  size_t n = 0;
  if (a < nt) { memcpy(x + n, VF_SIGMA1.toks[a].b, VF_SIGMA1.toks[a].n); n += VF_SIGMA1.toks[a].n; }
  if (b < nt) { memcpy(x + n, VF_SIGMA1.toks[b].b, VF_SIGMA1.toks[b].n); n += VF_SIGMA1.toks[b].n; }
  for (unsigned z = 0; z < NZERO; z++) {
    size_t zl = vf_unhex(x + n, sizeof x - n, ZERO_HEX[z]);
    /* close what the prefix opened with as many copies as needed (up to 3): c14_x keeps only the acceptable ones */
    size_t m = n + zl;
    for (unsigned rep = 0; rep < 3; rep++) {
      vf_cnt(K_ZERO_TAILS, 1);
      c14_x(x, m);
      if (m + zl > sizeof x) break;
      memcpy(x + m, x + n, zl);
      m += zl;
    }
  }
}
/* concatenations of up to 6 items from an 8-item alphabet: the advance-by-read loop must split them exactly */
static const char* CAT_HEX[8] = {"00", "6161", "8201f6", "a1016162", "5f4101ff", "c1820203", "f97e00", "9f81a0ff"};
static void cat_unit(uint64_t u) {
  uint8_t items[8][8];
  size_t ilen[8];
  for (int i = 0; i < 8; i++) ilen[i] = vf_unhex(items[i], 8, CAT_HEX[i]);
  /* u selects the first two items; the rest is enumerated */
  for (unsigned cnt = 2; cnt <= 6; cnt++) {
    uint64_t rest = 1;
    for (unsigned i = 2; i < cnt; i++) rest *= 8;
    for (uint64_t r = 0; r < rest; r++) {
      unsigned sel[6] = {(unsigned)(u / 8), (unsigned)(u % 8)};
      uint64_t rr = r;
      for (unsigned i = 2; i < cnt; i++) {
        sel[i] = (unsigned)(rr % 8);
        rr /= 8;
      }
      uint8_t cat[64];
      size_t tot = 0, bounds[7] = {0};
      for (unsigned i = 0; i < cnt; i++) {
        memcpy(cat + tot, items[sel[i]], ilen[sel[i]]);
        tot += ilen[sel[i]];
        bounds[i + 1] = tot;
      }
      vf_case("cat", cat, tot);
      vf_cnt(VC_EVAL, 1);
      vf_cnt(VC_TRACES, 1);
      vf_cnt(K_CONCATS, 1);
      if (cnt == 6) vf_cnt(VC_DISTINCT, 1);
      va_reset();
      uint8_t* in = vf_guard_put(cat, tot);
      size_t off = 0;
      unsigned got = 0;
      while (off < tot) {
        struct cbor_load_result res;
        cbor_item_t* it = cbor_load(in + off, tot - off, &res);
        if (!it) {
          vf_fail(NULL, "item %u of a %u-item sequence rejected at offset %zu (code %d)", got, cnt, off, res.error.code);
          break;
        }
        /* each piece must equal the item decoded alone */
        ref_arena_reset();
        rnode* w = vf_walk(it);
        struct cbor_load_result r1;
        uint8_t tmp[8];
        memcpy(tmp, items[sel[got < cnt ? got : 0]], 8);
        cbor_item_t* alone = cbor_load(tmp, ilen[sel[got < cnt ? got : 0]], &r1);
        if (alone) {
          rnode* wa = vf_walk(alone);
          if (!ref_equal(wa, w, 0, NULL)) vf_fail(NULL, "item %u of the sequence differs from the item decoded alone", got);
          cbor_decref(&alone);
        }
        cbor_decref(&it);
        off += res.read;
        got++;
        vf_cnt(K_ITEMS_SPLIT, 1);
        if (got <= cnt && off != bounds[got]) {
          vf_fail(NULL, "after %u items the offset is %zu, item boundary is %zu", got, off, bounds[got]);
          break;
        }
        if (got > cnt) break;
      }
      if (got != cnt || off != tot) vf_fail(NULL, "sequence of %u items split into %u items ending at %zu of %zu", cnt, got, off, tot);
      if (va.live) {
        vf_fail(NULL, "leak while splitting a sequence");
        va_release_all();
      }
    }
  }
}
#endif

#if PROP != 14
/* wide, partially filled definite containers: capacity and entry count on different sides of a head-width boundary
 * (the decoder can only produce full ones) */
static const size_t WCAP[] = {23, 24, 25, 255, 256, 257};
static void wide_unit(uint64_t u) {
  size_t cap = WCAP[u % 6];
  int map = (int)(u / 6 % 2), nest = (int)(u / 12 % 3);
  size_t fills[8] = {0, 1, 2, 23, 24, cap - 1, cap, cap / 2};
  va_cap = 1 << 20;
  for (int fi = 0; fi < 8; fi++) {
    size_t f = fills[fi];
    if (f > cap) continue;
    uint8_t d[8] = {(uint8_t)cap, (uint8_t)(cap >> 8), (uint8_t)map, (uint8_t)nest, (uint8_t)f, (uint8_t)(f >> 8)};
    vf_case("wide", d, 6);
    va_reset();
    cbor_item_t* c = map ? cbor_new_definite_map(cap) : cbor_new_definite_array(cap);
    cbor_item_t* x = cbor_build_uint8(7);
    cbor_item_t* y = cbor_build_string("v");
    for (size_t i = 0; i < f; i++) {
      bool ok = map ? cbor_map_add(c, (struct cbor_pair){.key = x, .value = y}) : cbor_array_push(c, i & 1 ? y : x);
      if (!ok) vf_fail(NULL, "insertion %zu into a definite container of capacity %zu refused", i, cap);
    }
    cbor_decref(&x);
    cbor_decref(&y);
    cbor_item_t* top = c;
    if (nest == 1) { top = cbor_build_tag(24, c); cbor_decref(&c); }
    if (nest == 2) { top = cbor_new_indefinite_array(); (void)cbor_array_push(top, c); (void)cbor_array_push(top, c); cbor_decref(&c); }
    vf_cnt(K_WIDE, 1);
    judge_tree(top, true);
  }
}
#endif
static void unit(uint64_t u) {
  va_cap = 64 * 1024;
#if PROP == 14
  if (u < bn_units) { vf_bn_unit(bn_max, u, c14_bn_cb, NULL); return; }
  u -= bn_units;
  if (u < dfs_units) { vf_dfs_unit(&VF_SIGMA, dfs_k, u, VF_L, va_cap, c14_seq_cb, NULL); return; }
  u -= dfs_units;
  if (u < cat_units) { cat_unit(u); return; }
  u -= cat_units;
  if (u < zero_units) { zero_unit(u); return; }
  u -= zero_units;
  if (u < c14_cor_units) { /* boundary-corpus items (wide containers, long strings, deep nesting) as x: what follows a LARGE item must not matter either */
    size_t n;
    const uint8_t* b = vf_corpus_item(u, &n, NULL);
    va_cap = 1ull << 30;
    if (n <= (1 << 15)) { vf_cnt(K_CORPUS, 1); c14_x(b, n); }
    return;
  }
  u -= c14_cor_units;
  vf_dfs_unit(&VF_SIGMA1, vf_tier ? 6 : 5, u, VF_L, va_cap, c14_seq_cb, NULL); /* deeper, structural alphabet */
#else
  if (u < bn_units) { vf_bn_unit(bn_max, u, bn_cb, NULL); return; }
  u -= bn_units;
  if (u < dfs_units) { vf_dfs_unit(&VF_SIGMA, dfs_k, u, VF_L, va_cap, seq_cb, NULL); return; }
  u -= dfs_units;
  if (u < con_units) { constructed_unit(u); return; }
  u -= con_units;
  if (u < cor_units) { /* boundary corpus: counts / lengths on every head-width boundary and growth step */
    size_t n;
    const uint8_t* b = vf_corpus_item(u, &n, NULL);
    va_cap = 1ull << 30;
    vf_cnt(K_CORPUS, 1);
    from_bytes(b, n, true);
    return;
  }
  u -= cor_units;
  if (u < wide_units) { wide_unit(u); return; }
  u -= wide_units;
#if PROP == 7
  vf_encoders_unit(u);
#endif
#endif
}
static uint64_t units(void) { return bn_units + dfs_units + con_units + cor_units + wide_units + enc_units + cat_units + dfs1_units + zero_units + c14_cor_units; }
static void init(void) {
  vf_enum_init();
  vf_sets_init();
  va_install();
  vf_guard_end();
#if PROP == 14
  bn_max = vf_tier ? 3 : 2;
  dfs_k = vf_tier ? 4 : 3;
  bn_units = vf_bn_units();
  dfs_units = vf_dfs_units(&VF_SIGMA);
  cat_units = 64;
  dfs1_units = vf_dfs_units(&VF_SIGMA1);
  zero_units = (VF_SIGMA1.ntoks + 1) * (VF_SIGMA1.ntoks + 1);
  vf_corpus_init();
  c14_cor_units = vf_corpus_count();
  /* suffix set Y: empty, every single byte, every head of Sigma, a few complete items, garbage */
  add_y((const uint8_t*)"", 0);
  for (unsigned v = 0; v < 256; v++) {
    uint8_t c = (uint8_t)v;
    add_y(&c, 1);
  }
  for (size_t i = 0; i < VF_SIGMA.ntoks; i++) add_y(VF_SIGMA.toks[i].b, VF_SIGMA.toks[i].n);
  static const char* extra[] = {"8201f6", "a1016162", "5f4101ff", "c1820203", "9f81a0ff", "ffffffff", "1c1c1c1c", "5f5f5f5f", "9b00000000000000", "7bffffffffffffffff", "deadbeef", NULL};
  for (int i = 0; extra[i]; i++) {
    uint8_t t[16];
    add_y(t, vf_unhex(t, 16, extra[i]));
  }
  vf_extra("suffix_set_Y", "%zu strings: empty, all 256 single bytes, all %zu heads of Sigma, 5 complete nested items, 6 garbage strings", ny, VF_SIGMA.ntoks);
#else
  bn_max = vf_tier ? 3 : 3;
  dfs_k = vf_tier ? 5 : 4;
  cdepth = 2;
  bn_units = vf_bn_units();
  dfs_units = vf_dfs_units(&VF_SIGMA);
  con_units = 256;
  vf_corpus_init();
  cor_units = vf_corpus_count();
  wide_units = 36;
#if PROP == 7
  vf_encoders_init();
  enc_units = vf_encoders_units();
#endif
#endif
}
static void replay(const char* tag, const uint8_t* d, size_t len) {
  va_cap = 64 * 1024;
  if (!strcmp(tag, "bytes")) from_bytes(d, len, false);
  else if (!strcmp(tag, "bytes-corpus")) { va_cap = 1ull << 30; from_bytes(d, len, false); }
#if PROP != 14
  else if (!strcmp(tag, "wide") && len >= 6) {
    size_t cap = d[0] | (size_t)d[1] << 8;
    for (uint64_t u = 0; u < 36; u++)
      if (WCAP[u % 6] == cap && (int)(u / 6 % 2) == d[2] && (int)(u / 12 % 3) == d[3]) wide_unit(u);
  }
#endif
  else if (!strcmp(tag, "ctree")) {
    va_cap = 1 << 20;
    vt_choices ch;
    memset(&ch, 0, sizeof ch);
    memcpy(ch.c, d, len < VT_MAXCHOICES ? len : VT_MAXCHOICES);
    va_reset();
    cbor_item_t* t = vt_build(&ch, 2);
    vf_sb s = {0};
    vt_describe(&ch, &s);
    fprintf(stderr, "constructed tree: %s\n", s.s);
    if (t) {
      ref_arena_reset();
      vf_sb_reset(&s);
      ref_render(vf_walk(t), &s);
      fprintf(stderr, "  = %s\n", s.s);
      judge_tree(t, false);
    }
  }
#if PROP == 7
  else if (!strcmp(tag, "enc")) vf_encoders_replay(d, len);
#endif
#if PROP == 14
  else if (!strcmp(tag, "xy")) {
    /* x is the longest prefix that decodes alone and is consumed entirely */
    for (size_t n = len; n > 0; n--) {
      struct cbor_load_result r;
      uint8_t* in = vf_guard_put(d, n);
      cbor_item_t* it = cbor_load(in, n, &r);
      if (it) {
        bool whole = r.read == n;
        cbor_decref(&it);
        if (whole) {
          ny = 0;
          add_y(d + n, len - n);
          c14_x(d, n);
          return;
        }
      }
    }
  } else if (!strcmp(tag, "cat")) fprintf(stderr, "re-run the check: concatenation cases are enumerated by unit\n");
#endif
}

struct vf_check vf_the_check = {
#if PROP == 3
    .property = "C03",
    .level = "exploration",
    .rule = "trees = every tree cbor_load returns on B(3) and on the accepted sequences of the pushdown DFS over Sigma, plus every tree of the constructed-tree grammar "
            "(all builders, all widths at boundary values, empty and multi-chunk strings, partially filled definite containers, shared sub-items; depth <= 2, enumerated "
            "odometer-style over its choice vectors); each is serialized and compared byte for byte with the reference encoder applied to the walked tree, re-loaded, "
            "compared, and re-serialized. distinct_nontrivial = distinct trees (distinct inputs / distinct choice vectors) with >= 2 nodes; states = distinct tree-shape classes",
#elif PROP == 7
    .property = "C07",
    .level = "exploration",
    .rule = "(tree, n) pairs: every tree of the C03 space x every buffer size n in 0..size+2 (buffer = exactly n bytes ending at a PROT_NONE page, sentinel before it), plus "
            "cbor_serialize_alloc on every tree; and (encoder, value, n) triples: all 27 cbor_encode_* x exhaustive 8/16-bit and structured 32/64-bit values x n in 0..10. "
            "distinct_nontrivial = distinct trees with >= 2 nodes + distinct (encoder, value, n) triples of the exhaustive/structured parts",
#elif PROP == 11
    .property = "C11",
    .level = "exploration",
    .rule = "every tree of the C03 space (decoder-derived + constructed, incl. shared sub-items, partially filled definite containers, zero-chunk indefinite strings, "
            "maximal-width integers) is copied; distinct_nontrivial = distinct trees with >= 2 nodes",
#else
    .property = "C14",
    .level = "exploration",
    .rule = "(x, y) pairs: x = every byte string of B(n) and every DFS sequence that the reference decoder accepts and consumes entirely (whether or not the library accepts it alone); y = every string of the suffix set Y; "
            "plus every concatenation of 2..6 items from an 8-item alphabet (8^2+..+8^6 sequences) split by the advance-by-read loop; distinct_nontrivial = distinct x + distinct 6-item sequences",
#endif
    .bounds = {
#if PROP == 14
        "x from B(2), DFS over Sigma to 3 heads and over Sigma' to 5 heads; |Y| ~ 350; all concatenations of <= 6 items over 8 items", "x from B(3), DFS over Sigma to 4 and Sigma' to 6 heads; same Y; same concatenations"
#else
        "B(3) + DFS over Sigma to 4 heads + constructed grammar depth 2", "B(3) + DFS over Sigma to 5 heads + constructed grammar depth 2"
#endif
    },
    .assumptions = {"reference encoder ref_encode implements the wording of C03 (stored width for ints/floats, shortest head for lengths/counts/tags, canonical quiet NaN); pinned to RFC 8949 Appendix A by ./vf setup",
                    "walker reads items through the public getters only (tag child via the public struct field, so that no reference count is touched)",
                    "allocator cap 64 KiB: larger requests are refused and the input is then not part of the tree space",
                    "built with ASan/UBSan and live CBOR_ASSERT; output buffers end at a PROT_NONE page"},
    .counters = {[VC_EVAL] = "cases_judged", [VC_DISTINCT] = "distinct_nontrivial", [VC_TRANS] = "nodes_or_pairs_visited", [VC_TRACES] = "executed_on_implementation",
                 [K_DECODED] = "decoder_derived_trees", [K_CONSTRUCTED] = "constructed_trees", [K_OUTSIDE] = "outside_domain", [K_NODES] = "tree_nodes_walked",
                 [K_SHARED] = "trees_with_shared_subitems", [K_PARTIAL] = "trees_with_partially_filled_definite_containers", [K_BUFSIZES] = "buffer_sizes_tried",
                 [K_BYTES_CMP] = "byte_exact_comparisons", [K_ROUNDTRIPS] = "load_of_serialization", [K_NAN] = "trees_with_NaN", [K_SUFFIXES] = "xy_pairs",
                 [K_CONCATS] = "concatenations", [K_ITEMS_SPLIT] = "items_split", [K_CORPUS] = "boundary_corpus_items", [K_WIDE] = "wide_partially_filled_definite_containers",
                 [K_LOSSY] = "trees_with_half_items_holding_non_half_values", [K_ZERO_TAILS] = "x_candidates_ending_in_a_zero_count_item_with_a_long_head",
#if PROP == 7
                 [VC_USER + 24] = "encoder_buffer_sizes_tried", [VC_USER + 25] = "encoder_calls_with_too_small_buffer",
#endif
    },
    .init = init, .units = units, .unit = unit, .replay = replay, .state_bits = 20};
