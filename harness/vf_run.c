/* Sharded runner: forks workers over index-addressable work units, attributes crashes / hangs /
 * oracle failures to ONE concrete case, re-runs that case alone before reporting it, merges
 * per-worker coverage counters and writes the evidence file.  No randomness anywhere. */
#define _GNU_SOURCE
#include "vf.h"

#include <errno.h>
#include <fcntl.h>
#include <signal.h>
#include <sys/mman.h>
#include <sys/stat.h>
#include <sys/time.h>
#include <sys/wait.h>
#include <time.h>
#include <unistd.h>

#define MAXW 64
#define CASEMAX (160 * 1024) /* the largest boundary-corpus items (2^16+ entries, 2 bytes each) must be replayable alone */
#define MAXVLOG 8
#define MAXKNOWN 64
#define MAXSAMPLES 4
#define OUT_BITS 14

struct wslot {
  volatile uint64_t heartbeat;
  volatile uint64_t cur_unit;
  volatile int in_unit;
  char tag[32];
  volatile uint32_t len;
  uint8_t data[CASEMAX];
  uint64_t cnt[VF_MAXCNT];
  uint32_t nsamples;
  char samples[MAXSAMPLES][768];
  volatile int state_full;
};
struct vlog {
  volatile uint64_t casehash, sighash;
  char path[512];
  char msg[1536];
  char tag[32];
  uint32_t len;
  uint8_t data[CASEMAX];
  volatile int ready;
};
struct shared {
  volatile uint64_t next_unit;
  uint64_t nunits;
  volatile uint64_t nviol;   /* oracle failures not in the known list */
  volatile uint64_t nvlog;   /* slots taken in vl[] */
  volatile int stop;
  volatile int not_exhaustive;
  char why[512];
  volatile int nretry;
  uint64_t retry[256];
  volatile uint64_t known_hits[MAXKNOWN];
  struct wslot w[MAXW];
  struct vlog vl[MAXVLOG];
  volatile uint64_t units_done;
  volatile int crashed;
};


int vf_tier = 0, vf_replaying = 0, vf_verbose = 0;
int vf_nworkers_hint = 16;
uint64_t vf_seed = 0;

static struct shared* S;
static int me = -1; /* worker index, -1 = parent */
static int nworkers = 16;
static uint64_t* state_tab[MAXW];
static uint64_t* out_tab[MAXW];
static int state_bits = 16;
static const char* evidence_path = NULL;
static const char* replay_dir = "replay";
static const char* known_path = NULL;
static double t_start, t_deadline = 1e18;
static double hang_s = 60;
static double hang_confirm = 4; /* a case that stopped making progress is re-run alone with this many times the limit */
static uint64_t hung_units[64];
static int nhung_units;
static int replay_failed = 0;
static char extra_keys[32][64];
static char extra_vals[32][1024];
static int nextra = 0;
static int nknown = 0;
static char known_sig[MAXKNOWN][256];
static char known_text[MAXKNOWN][512];

double vf_now(void) {
  struct timespec ts;
  clock_gettime(CLOCK_MONOTONIC, &ts);
  return ts.tv_sec + ts.tv_nsec * 1e-9;
}
double vf_deadline_left(void) { return t_deadline - vf_now(); }
int vf_peer_crashed(void) { return S ? S->crashed : 0; }

size_t vf_hex(char* out, size_t cap, const void* p, size_t n) {
  static const char* d = "0123456789abcdef";
  const uint8_t* b = p;
  size_t o = 0;
  for (size_t i = 0; i < n && o + 2 < cap; i++) {
    out[o++] = d[b[i] >> 4];
    out[o++] = d[b[i] & 15];
  }
  if (cap) out[o < cap ? o : cap - 1] = 0;
  return o;
}
static int hv(int c) {
  if (c >= '0' && c <= '9') return c - '0';
  if (c >= 'a' && c <= 'f') return c - 'a' + 10;
  if (c >= 'A' && c <= 'F') return c - 'A' + 10;
  return -1;
}
size_t vf_unhex(uint8_t* out, size_t cap, const char* s) {
  size_t n = 0;
  while (s[0] && s[1] && hv(s[0]) >= 0 && hv(s[1]) >= 0 && n < cap) {
    out[n++] = (uint8_t)(hv(s[0]) * 16 + hv(s[1]));
    s += 2;
  }
  return n;
}
void vf_sb_reset(vf_sb* b) {
  b->n = 0;
  if (b->s) b->s[0] = 0;
}
static void sb_need(vf_sb* b, size_t extra) {
  if (b->n + extra + 1 > b->cap) {
    size_t nc = b->cap ? b->cap * 2 : 256;
    while (nc < b->n + extra + 1) nc *= 2;
    b->s = realloc(b->s, nc);
    b->cap = nc;
  }
}
void vf_sb_printf(vf_sb* b, const char* fmt, ...) {
  va_list a;
  va_start(a, fmt);
  int n = vsnprintf(NULL, 0, fmt, a);
  va_end(a);
  sb_need(b, (size_t)n);
  va_start(a, fmt);
  vsnprintf(b->s + b->n, (size_t)n + 1, fmt, a);
  va_end(a);
  b->n += (size_t)n;
}
void vf_sb_hex(vf_sb* b, const void* p, size_t n) {
  sb_need(b, 2 * n);
  vf_hex(b->s + b->n, 2 * n + 1, p, n);
  b->n += 2 * n;
  b->s[b->n] = 0;
}

/* ---------- worker side ---------- */
void vf_case(const char* tag, const void* data, size_t len) {
  if (me < 0) return;
  struct wslot* w = &S->w[me];
  if (len > CASEMAX) len = CASEMAX;
  strncpy(w->tag, tag, sizeof w->tag - 1);
  w->len = (uint32_t)len;
  if (len) memcpy(w->data, data, len);
  w->heartbeat++;
}
void vf_cnt(int slot, uint64_t n) {
  if (me < 0) return;
  S->w[me].cnt[slot] += n;
}
uint64_t vf_cnt_get_local(int slot) { return me < 0 ? 0 : S->w[me].cnt[slot]; }
static void set_insert(uint64_t* tab, int bits, uint64_t h, volatile int* full) {
  if (h == 0) h = 1;
  uint64_t mask = (1ull << bits) - 1, i = (h * 0x9E3779B97F4A7C15ull) >> (64 - bits);
  for (uint64_t probes = 0; probes <= mask; probes++, i = (i + 1) & mask) {
    if (tab[i] == h) return;
    if (tab[i] == 0) {
      tab[i] = h;
      return;
    }
    if (probes > 4096) break;
  }
  if (full) *full = 1;
}
void vf_state(uint64_t h) {
  if (me < 0) return;
  set_insert(state_tab[me], state_bits, h, &S->w[me].state_full);
}
void vf_outcome(uint64_t h) {
  if (me < 0) return;
  set_insert(out_tab[me], OUT_BITS, h, NULL);
}
void vf_sample(const char* fmt, ...) {
  if (me < 0) return;
  struct wslot* w = &S->w[me];
  if (w->nsamples >= MAXSAMPLES) return;
  va_list a;
  va_start(a, fmt);
  vsnprintf(w->samples[w->nsamples++], sizeof w->samples[0], fmt, a);
  va_end(a);
}
void vf_extra(const char* key, const char* fmt, ...) {
  if (nextra >= 32) return;
  va_list a;
  va_start(a, fmt);
  snprintf(extra_keys[nextra], sizeof extra_keys[0], "%s", key);
  vsnprintf(extra_vals[nextra], sizeof extra_vals[0], fmt, a);
  va_end(a);
  nextra++;
}
void vf_not_exhaustive(const char* why) {
  if (!S) return;
  if (!S->not_exhaustive) {
    S->not_exhaustive = 1;
    snprintf(S->why, sizeof S->why, "%s", why);
  }
}

static void json_str(FILE* f, const char* s) {
  fputc('"', f);
  for (; *s; s++) {
    unsigned char c = (unsigned char)*s;
    if (c == '"' || c == '\\')
      fprintf(f, "\\%c", c);
    else if (c == '\n')
      fputs("\\n", f);
    else if (c < 0x20 || c >= 0x7f)
      fprintf(f, "\\u%04x", c);
    else
      fputc(c, f);
  }
  fputc('"', f);
}

static void write_replay_file(const char* path, const char* tag, const uint8_t* data, size_t len,
                              const char* msg) {
  FILE* f = fopen(path, "w");
  if (!f) return;
  char* hex = malloc(2 * len + 1);
  vf_hex(hex, 2 * len + 1, data, len);
  fprintf(f, "{\"property\": \"%s\", \"tier\": \"%s\", \"tag\": \"%s\", \"hex\": \"%s\", \"message\": ",
          vf_the_check.property, vf_tier ? "thorough" : "quick", tag, hex);
  json_str(f, msg);
  fprintf(f, "}\n");
  fclose(f);
  free(hex);
}

void vf_fail(const char* sig, const char* fmt, ...) {
  char msg[1536];
  va_list a;
  va_start(a, fmt);
  vsnprintf(msg, sizeof msg, fmt, a);
  va_end(a);
  if (vf_replaying) {
    replay_failed++;
    fprintf(stderr, "FAIL[%s]: %s\n", sig ? sig : "-", msg);
    return;
  }
  const char* tag = "none";
  const uint8_t* data = (const uint8_t*)"";
  size_t len = 0;
  if (me >= 0) {
    tag = S->w[me].tag;
    data = S->w[me].data;
    len = S->w[me].len;
  }
  char sigbuf[256];
  if (!sig) {
    char hx[200];
    vf_hex(hx, sizeof hx, data, len);
    snprintf(sigbuf, sizeof sigbuf, "%s:%s", tag, hx);
    sig = sigbuf;
  }
  for (int k = 0; k < nknown; k++)
    if (strcmp(known_sig[k], sig) == 0) {
      __sync_fetch_and_add(&S->known_hits[k], 1);
      return;
    }
  uint64_t idx = __sync_fetch_and_add(&S->nviol, 1);
  uint64_t h = vf_hash(data, len, vf_hash(tag, strlen(tag), 7));
  /* the same case (or the same signature) is logged once */
  uint64_t sh = vf_hash(sig, strlen(sig), 11);
  for (uint64_t i = 0; i < MAXVLOG && i < S->nvlog; i++)
    if (S->vl[i].casehash == h || (S->vl[i].sighash == sh)) return;
  uint64_t slot = __sync_fetch_and_add(&S->nvlog, 1);
  if (slot < MAXVLOG) {
    struct vlog* v = &S->vl[slot];
    v->casehash = h;
    v->sighash = sh;
    snprintf(v->path, sizeof v->path, "%s/%s-%016llx.json", replay_dir, vf_the_check.property,
             (unsigned long long)h);
    snprintf(v->msg, sizeof v->msg, "[sig=%s] %s", sig, msg);
    snprintf(v->tag, sizeof v->tag, "%s", tag);
    v->len = (uint32_t)len;
    memcpy(v->data, data, len);
    write_replay_file(v->path, tag, data, len, v->msg);
    v->ready = 1;
  }
  if (idx < 20) fprintf(stderr, "[%s] oracle failure on case %s: %s\n", vf_the_check.property, tag, msg);
}

/* ---------- parent side ---------- */
static void load_known(void) {
  if (!known_path) return;
  FILE* f = fopen(known_path, "r");
  if (!f) return;
  char line[1024];
  while (fgets(line, sizeof line, f)) {
    /* known: property=C05 sig=<sig> <text>   (lines starting with "fixed:" suppress nothing) */
    if (strncmp(line, "known:", 6) != 0) continue;
    char prop[16] = "", sig[256] = "";
    char* p = strstr(line, "property=");
    char* s = strstr(line, "sig=");
    if (!p || !s) continue;
    sscanf(p + 9, "%15s", prop);
    sscanf(s + 4, "%255s", sig);
    if (strcmp(prop, vf_the_check.property) != 0) continue;
    if (nknown < MAXKNOWN) {
      snprintf(known_sig[nknown], sizeof known_sig[0], "%s", sig);
      char* t = s + 4 + strlen(sig);
      while (*t == ' ') t++;
      snprintf(known_text[nknown], sizeof known_text[0], "%s", t);
      size_t L = strlen(known_text[nknown]);
      while (L && (known_text[nknown][L - 1] == '\n')) known_text[nknown][--L] = 0;
      nknown++;
    }
  }
  fclose(f);
}

static pid_t wpid[MAXW];
static uint64_t last_hb[MAXW];
static double last_hb_t[MAXW];

static void worker_main(int idx) {
  me = idx;
  char lp[600];
  snprintf(lp, sizeof lp, "%s/%s-worker%d.log", replay_dir, vf_the_check.property, idx);
  int fd = open(lp, O_WRONLY | O_CREAT | O_TRUNC, 0644);
  if (fd >= 0) {
    dup2(fd, 2);
    close(fd);
  }
  for (;;) {
    if (S->stop) break;
    uint64_t u;
    int r = S->nretry;
    if (r > 0 && __sync_bool_compare_and_swap(&S->nretry, r, r - 1)) {
      u = S->retry[r - 1];
    } else {
      u = __sync_fetch_and_add(&S->next_unit, 1);
      if (u >= S->nunits) break;
    }
    S->w[me].cur_unit = u;
    S->w[me].in_unit = 1;
    S->w[me].heartbeat++;
    vf_the_check.unit(u);
    S->w[me].in_unit = 0;
    __sync_fetch_and_add(&S->units_done, 1);
  }
  fflush(NULL);
  _exit(0);
}
static void spawn(int idx) {
  fflush(NULL);
  pid_t p = fork();
  if (p < 0) {
    perror("fork");
    exit(2);
  }
  if (p == 0) worker_main(idx);
  wpid[idx] = p;
  last_hb[idx] = S->w[idx].heartbeat;
  last_hb_t[idx] = vf_now();
}

/* run one case alone in a fresh child; returns 0 = passed, 1 = failed/crashed, 2 = timed out */
static int solitary(const char* tag, const uint8_t* data, size_t len, double limit, const char* logpath) {
  fflush(NULL);
  pid_t p = fork();
  if (p == 0) {
    me = -1;
    vf_replaying = 1;
    if (logpath) {
      int fd = open(logpath, O_WRONLY | O_CREAT | O_APPEND, 0644);
      if (fd >= 0) {
        dup2(fd, 2);
        close(fd);
      }
    }
    vf_the_check.replay(tag, data, len);
    fflush(NULL);
    _exit(replay_failed ? 1 : 0);
  }
  double t0 = vf_now();
  for (;;) {
    int st;
    pid_t r = waitpid(p, &st, WNOHANG);
    if (r == p) {
      if (WIFEXITED(st) && WEXITSTATUS(st) == 0) return 0;
      return 1;
    }
    if (vf_now() - t0 > limit) {
      kill(p, SIGKILL);
      waitpid(p, &st, 0);
      return 2;
    }
    usleep(2000);
  }
}

static char* tail_of(const char* path, size_t maxn) {
  FILE* f = fopen(path, "r");
  if (!f) return strdup("");
  fseek(f, 0, SEEK_END);
  long sz = ftell(f);
  long off = sz > (long)maxn ? sz - (long)maxn : 0;
  fseek(f, off, SEEK_SET);
  char* b = calloc(1, maxn + 1);
  size_t n = fread(b, 1, maxn, f);
  b[n] = 0;
  fclose(f);
  return b;
}

static uint64_t merged_count(uint64_t** tabs, int bits) {
  /* union of per-worker sets */
  size_t total = 0;
  for (int w = 0; w < nworkers; w++)
    for (uint64_t i = 0; i < (1ull << bits); i++)
      if (tabs[w][i]) total++;
  if (total == 0) return 0;
  int mb = 1;
  while ((1ull << mb) < total * 2) mb++;
  uint64_t* m = calloc(1ull << mb, 8);
  uint64_t mask = (1ull << mb) - 1, cnt = 0;
  for (int w = 0; w < nworkers; w++)
    for (uint64_t i = 0; i < (1ull << bits); i++) {
      uint64_t h = tabs[w][i];
      if (!h) continue;
      uint64_t j = (h * 0x9E3779B97F4A7C15ull) >> (64 - mb);
      for (;; j = (j + 1) & mask) {
        if (m[j] == h) break;
        if (m[j] == 0) {
          m[j] = h;
          cnt++;
          break;
        }
      }
    }
  free(m);
  return cnt;
}

static int read_replay_file(const char* path, char* tag, size_t tagcap, uint8_t** data, size_t* len) {
  FILE* f = fopen(path, "r");
  if (!f) return -1;
  fseek(f, 0, SEEK_END);
  long sz = ftell(f);
  fseek(f, 0, SEEK_SET);
  char* b = calloc(1, (size_t)sz + 1);
  if (fread(b, 1, (size_t)sz, f) != (size_t)sz) {
    fclose(f);
    return -1;
  }
  fclose(f);
  char* t = strstr(b, "\"tag\": \"");
  char* h = strstr(b, "\"hex\": \"");
  if (!t || !h) return -1;
  t += 8;
  size_t i = 0;
  while (t[i] && t[i] != '"' && i + 1 < tagcap) {
    tag[i] = t[i];
    i++;
  }
  tag[i] = 0;
  h += 8;
  size_t hl = strcspn(h, "\"");
  *data = malloc(hl / 2 + 1);
  *len = vf_unhex(*data, hl / 2, h);
  free(b);
  return 0;
}

int main(int argc, char** argv) {
  const char* replay_path = NULL;
  double deadline_s = -1;
  for (int i = 1; i < argc; i++) {
    if (!strcmp(argv[i], "--tier") && i + 1 < argc)
      vf_tier = !strcmp(argv[++i], "thorough");
    else if (!strcmp(argv[i], "--jobs") && i + 1 < argc)
      nworkers = atoi(argv[++i]);
    else if (!strcmp(argv[i], "--evidence") && i + 1 < argc)
      evidence_path = argv[++i];
    else if (!strcmp(argv[i], "--replay-dir") && i + 1 < argc)
      replay_dir = argv[++i];
    else if (!strcmp(argv[i], "--known") && i + 1 < argc)
      known_path = argv[++i];
    else if (!strcmp(argv[i], "--replay") && i + 1 < argc)
      replay_path = argv[++i];
    else if (!strcmp(argv[i], "--deadline") && i + 1 < argc)
      deadline_s = atof(argv[++i]);
    else if (!strcmp(argv[i], "--hang") && i + 1 < argc)
      hang_s = atof(argv[++i]);
    else if (!strcmp(argv[i], "--hang-confirm") && i + 1 < argc)
      hang_confirm = atof(argv[++i]);
    else if (!strcmp(argv[i], "-v"))
      vf_verbose = 1;
    else {
      fprintf(stderr, "unknown argument %s\n", argv[i]);
      return 2;
    }
  }
  if (nworkers < 1) nworkers = 1;
  if (nworkers > MAXW) nworkers = MAXW;
  vf_nworkers_hint = nworkers;
  const char* sd = getenv("VERIF_SEED");
  if (sd) vf_seed = strtoull(sd, NULL, 10);
  setvbuf(stdout, NULL, _IOLBF, 0);
  t_start = vf_now();
  if (deadline_s < 0) deadline_s = vf_tier ? 3000 : 600;
  t_deadline = t_start + deadline_s;
  mkdir(replay_dir, 0755);

  if (replay_path) {
    char tag[64];
    uint8_t* data;
    size_t len;
    if (read_replay_file(replay_path, tag, sizeof tag, &data, &len)) {
      fprintf(stderr, "cannot read %s\n", replay_path);
      return 2;
    }
    vf_replaying = 1;
    vf_verbose = 1;
    if (vf_the_check.init) vf_the_check.init();
    fprintf(stderr, "replaying %s case tag=%s len=%zu\n", vf_the_check.property, tag, len);
    vf_the_check.replay(tag, data, len);
    if (replay_failed) {
      printf("VIOLATION property=%s replay=%s\n", vf_the_check.property, replay_path);
      return 1;
    }
    printf("replay passed: property %s holds on this case\n", vf_the_check.property);
    return 0;
  }

  S = mmap(NULL, sizeof *S, PROT_READ | PROT_WRITE, MAP_SHARED | MAP_ANONYMOUS, -1, 0);
  if (S == MAP_FAILED) {
    perror("mmap");
    return 2;
  }
  state_bits = vf_the_check.state_bits ? vf_the_check.state_bits : 16;
  for (int w = 0; w < nworkers; w++) {
    state_tab[w] = mmap(NULL, 8ull << state_bits, PROT_READ | PROT_WRITE, MAP_SHARED | MAP_ANONYMOUS, -1, 0);
    out_tab[w] = mmap(NULL, 8ull << OUT_BITS, PROT_READ | PROT_WRITE, MAP_SHARED | MAP_ANONYMOUS, -1, 0);
    if (state_tab[w] == MAP_FAILED || out_tab[w] == MAP_FAILED) {
      perror("mmap");
      return 2;
    }
  }
  load_known();
  if (vf_the_check.init) vf_the_check.init();
  S->nunits = vf_the_check.units();
  S->next_unit = 0;

  int crashes = 0, unstable = 0, confirmed = 0, hangs = 0;
  char first_replay[512] = "";
  for (int w = 0; w < nworkers; w++) spawn(w);
  int alive = nworkers;
  while (alive > 0) {
    int progressed = 0;
    for (int w = 0; w < nworkers; w++) {
      if (!wpid[w]) continue;
      int st;
      pid_t r = waitpid(wpid[w], &st, WNOHANG);
      double now = vf_now();
      int hung = 0;
      if (r == 0) {
        uint64_t hb = S->w[w].heartbeat;
        if (hb != last_hb[w]) {
          last_hb[w] = hb;
          last_hb_t[w] = now;
        } else if (now - last_hb_t[w] > hang_s) {
          kill(wpid[w], SIGKILL);
          waitpid(wpid[w], &st, 0);
          hung = 1;
          r = wpid[w];
        }
      }
      if (r != wpid[w]) continue;
      progressed = 1;
      wpid[w] = 0;
      alive--;
      if (!hung && WIFEXITED(st) && WEXITSTATUS(st) == 0) continue; /* finished normally */
      /* crash or hang: attribute to the published case */
      S->crashed = 1;
      struct wslot* ws = &S->w[w];
      char path[600], lp[600], msg[2048];
      uint64_t h = vf_hash(ws->data, ws->len, vf_hash(ws->tag, strlen(ws->tag), 7));
      snprintf(path, sizeof path, "%s/%s-%016llx.json", replay_dir, vf_the_check.property, (unsigned long long)h);
      snprintf(lp, sizeof lp, "%s/%s-worker%d.log", replay_dir, vf_the_check.property, w);
      char* tl = tail_of(lp, 1200);
      if (hung)
        snprintf(msg, sizeof msg, "no progress for %.0f s (hang) in unit %llu", hang_s, (unsigned long long)ws->cur_unit);
      else if (WIFSIGNALED(st))
        snprintf(msg, sizeof msg, "worker killed by signal %d in unit %llu; log tail: %s", WTERMSIG(st),
                 (unsigned long long)ws->cur_unit, tl);
      else
        snprintf(msg, sizeof msg, "worker exited with status %d in unit %llu; log tail: %s", WEXITSTATUS(st),
                 (unsigned long long)ws->cur_unit, tl);
      free(tl);
      write_replay_file(path, ws->tag, ws->data, ws->len, msg);
      int sr = solitary(ws->tag, ws->data, ws->len, hung ? hang_s * hang_confirm : hang_s * 2, lp);
      if (hung) hangs++; else crashes++;
      if (sr != 0) {
        confirmed++;
        __sync_fetch_and_add(&S->nviol, 1);
        printf("VIOLATION property=%s replay=%s\n", vf_the_check.property, path);
        fprintf(stderr, "[%s] %s\n", vf_the_check.property, msg);
        if (!first_replay[0]) snprintf(first_replay, sizeof first_replay, "%s", path);
        char why[256];
        snprintf(why, sizeof why, "unit %llu abandoned after a confirmed %s", (unsigned long long)ws->cur_unit,
                 hung ? "hang" : "crash");
        vf_not_exhaustive(why);
      } else if (hung && ({ int seen = 0; for (int q = 0; q < nhung_units; q++) seen |= hung_units[q] == ws->cur_unit; seen; })) {
        /* the re-queued unit stopped making progress again: a hang the solitary re-run of its last published case does not show is still a hang */
        confirmed++;
        __sync_fetch_and_add(&S->nviol, 1);
        printf("VIOLATION property=%s replay=%s\n", vf_the_check.property, path);
        fprintf(stderr, "[%s] %s - second watchdog hit in the same unit (the case passes when re-run alone)\n", vf_the_check.property, msg);
        if (!first_replay[0]) snprintf(first_replay, sizeof first_replay, "%s", path);
        vf_not_exhaustive("a unit was abandoned after hanging twice");
      } else if (hung) {
        /* slow, not stuck: give the unit back */
        if (nhung_units < 64) hung_units[nhung_units++] = ws->cur_unit;
        int rr = S->nretry;
        if (rr < 256) {
          S->retry[rr] = ws->cur_unit;
          S->nretry = rr + 1;
        }
        fprintf(stderr, "[%s] watchdog hit in unit %llu not reproduced alone; unit re-queued\n",
                vf_the_check.property, (unsigned long long)ws->cur_unit);
        hang_s *= 2;
      } else {
        unstable++;
        fprintf(stderr, "[%s] UNSTABLE: crash not reproduced on solitary re-run: %s\n", vf_the_check.property, msg);
        vf_not_exhaustive("a worker crash was not reproducible alone");
      }
      if (crashes + hangs < 24 && !S->stop) {
        spawn(w);
        alive++;
      }
    }
    if (vf_now() > t_deadline && !S->stop) {
      S->stop = 1;
      if (S->next_unit < S->nunits) vf_not_exhaustive("global deadline reached before all units were started");
    }
    if (!progressed) usleep(20000);
  }
  if (S->units_done < S->nunits && !S->not_exhaustive) vf_not_exhaustive("not all units completed");

  /* confirm oracle failures by a solitary re-run before reporting them */
  uint64_t nv = S->nvlog < MAXVLOG ? S->nvlog : MAXVLOG;
  for (uint64_t i = 0; i < nv; i++) {
    struct vlog* v = &S->vl[i];
    if (!v->ready) continue;
    int sr = solitary(v->tag, v->data, v->len, hang_s * 2, NULL);
    if (sr != 0) {
      confirmed++;
    } else {
      unstable++;
      fprintf(stderr, "[%s] UNSTABLE: failure not reproduced alone: %s\n", vf_the_check.property, v->msg);
    }
    printf("VIOLATION property=%s replay=%s\n", vf_the_check.property, v->path);
    if (!first_replay[0]) snprintf(first_replay, sizeof first_replay, "%s", v->path);
    fprintf(stderr, "[%s] %s: %s\n", vf_the_check.property, v->path, v->msg);
  }
  /* cross-worker checks */
  me = -1;
  uint64_t tot[VF_MAXCNT] = {0};
  for (int w = 0; w < nworkers; w++)
    for (int c = 0; c < VF_MAXCNT; c++) tot[c] += S->w[w].cnt[c];
  if (vf_the_check.finish) {
    /* finish() may call vf_fail: borrow an extra slot for bookkeeping */
    me = MAXW - 1;
    S->w[me].len = 0;
    snprintf(S->w[me].tag, sizeof S->w[me].tag, "finish");
    for (int c = 0; c < VF_MAXCNT; c++) S->w[me].cnt[c] = tot[c];
    uint64_t from = S->nvlog < MAXVLOG ? S->nvlog : MAXVLOG;
    vf_the_check.finish();
    for (int c = 0; c < VF_MAXCNT; c++) tot[c] = S->w[me].cnt[c];
    me = -1;
    uint64_t to = S->nvlog < MAXVLOG ? S->nvlog : MAXVLOG;
    for (uint64_t i = from; i < to; i++) {
      confirmed++;
      printf("VIOLATION property=%s replay=%s\n", vf_the_check.property, S->vl[i].path);
      fprintf(stderr, "[%s] %s: %s\n", vf_the_check.property, S->vl[i].path, S->vl[i].msg);
    }
  }
  uint64_t nstates = merged_count(state_tab, state_bits);
  if (vf_the_check.states_counter) nstates = tot[vf_the_check.states_counter - 1];
  uint64_t nout = merged_count(out_tab, OUT_BITS);
  int states_lb = 0;
  for (int w = 0; w < nworkers; w++)
    if (S->w[w].state_full) states_lb = 1; /* the distinct-state set overflowed: the reported count is a lower bound (the enumeration itself is unaffected) */

  for (int k = 0; k < nknown; k++)
    if (S->known_hits[k])
      printf("KNOWN-FINDING: property=%s %s (sig=%s, %llu cases)\n", vf_the_check.property, known_text[k],
             known_sig[k], (unsigned long long)S->known_hits[k]);

  double wall = vf_now() - t_start;
  uint64_t violations = S->nviol;
  if (evidence_path) {
    char tmp[1024];
    snprintf(tmp, sizeof tmp, "%s.tmp", evidence_path);
    FILE* f = fopen(tmp, "w");
    if (!f) {
      perror(tmp);
      return 2;
    }
    fprintf(f, "{\n \"property_id\": \"%s\",\n \"tier\": \"%s\",\n \"seed\": %llu,\n \"level\": \"%s\",\n",
            vf_the_check.property, vf_tier ? "thorough" : "quick", (unsigned long long)vf_seed, vf_the_check.level);
    fprintf(f, " \"coverage\": {\n");
    fprintf(f, "  \"evaluations\": %llu,\n  \"distinct_nontrivial\": %llu,\n", (unsigned long long)tot[VC_EVAL],
            (unsigned long long)tot[VC_DISTINCT]);
    fprintf(f, "  \"rule\": ");
    json_str(f, vf_the_check.rule ? vf_the_check.rule : "");
    fprintf(f, ",\n  \"states\": %llu,\n  \"transitions\": %llu,\n  \"traces_validated_against_impl\": %llu,\n",
            (unsigned long long)nstates, (unsigned long long)tot[VC_TRANS], (unsigned long long)tot[VC_TRACES]);
    fprintf(f, "  \"distinct_outcomes\": %llu,\n", (unsigned long long)nout);
    if (states_lb) fprintf(f, "  \"states_is_lower_bound\": true,\n");
    fprintf(f, "  \"exhaustive\": %s,\n", S->not_exhaustive ? "false" : "true");
    if (S->not_exhaustive) {
      fprintf(f, "  \"cap_hit\": ");
      json_str(f, S->why);
      fprintf(f, ",\n");
    }
    fprintf(f, "  \"bound\": ");
    json_str(f, vf_the_check.bounds[vf_tier] ? vf_the_check.bounds[vf_tier] : "");
    fprintf(f, ",\n  \"units\": %llu,\n  \"units_completed\": %llu,\n  \"workers\": %d,\n",
            (unsigned long long)S->nunits, (unsigned long long)S->units_done, nworkers);
    fprintf(f, "  \"worker_crashes\": %d,\n  \"watchdog_hits\": %d,\n  \"unstable_cases\": %d,\n", crashes, hangs,
            unstable);
    fprintf(f, "  \"counters\": {");
    int first = 1;
    for (int c = 0; c < VF_MAXCNT; c++)
      if (vf_the_check.counters[c]) {
        fprintf(f, "%s\n   ", first ? "" : ",");
        json_str(f, vf_the_check.counters[c]);
        fprintf(f, ": %llu", (unsigned long long)tot[c]);
        first = 0;
      }
    fprintf(f, "\n  },\n");
    for (int e = 0; e < nextra; e++) {
      fprintf(f, "  ");
      json_str(f, extra_keys[e]);
      fprintf(f, ": ");
      json_str(f, extra_vals[e]);
      fprintf(f, ",\n");
    }
    fprintf(f, "  \"samples\": [");
    first = 1;
    int ns = 0;
    for (int w = 0; w < nworkers && ns < 8; w++)
      for (uint32_t i = 0; i < S->w[w].nsamples && ns < 8; i++) {
        fprintf(f, "%s\n   ", first ? "" : ",");
        json_str(f, S->w[w].samples[i]);
        first = 0;
        ns++;
      }
    if (ns == 0) {
      fprintf(f, "\n   ");
      json_str(f, "(no sample recorded)");
    }
    fprintf(f, "\n  ]\n },\n \"assumptions\": [");
    first = 1;
    for (int a = 0; a < 12 && vf_the_check.assumptions[a]; a++) {
      fprintf(f, "%s\n  ", first ? "" : ",");
      json_str(f, vf_the_check.assumptions[a]);
      first = 0;
    }
    fprintf(f, "\n ],\n \"wall_s\": %.3f,\n \"violations\": %llu\n}\n", wall, (unsigned long long)violations);
    fclose(f);
    rename(tmp, evidence_path);
  }
  fprintf(stderr,
          "[%s] tier=%s evaluations=%llu distinct_nontrivial=%llu states=%llu transitions=%llu outcomes=%llu "
          "exhaustive=%s violations=%llu wall=%.1fs\n",
          vf_the_check.property, vf_tier ? "thorough" : "quick", (unsigned long long)tot[VC_EVAL],
          (unsigned long long)tot[VC_DISTINCT], (unsigned long long)nstates, (unsigned long long)tot[VC_TRANS],
          (unsigned long long)nout, S->not_exhaustive ? "false" : "true", (unsigned long long)violations, wall);
  if (violations > 0) {
    if (confirmed == 0) printf("VIOLATION property=%s replay=%s\n", vf_the_check.property, first_replay[0] ? first_replay : "(unreproducible)");
    return 1;
  }
  if (unstable) {
    fprintf(stderr, "[%s] harness instability detected (%d cases); treating run as inconclusive\n", vf_the_check.property, unstable);
    return 3;
  }
  return 0;
}
