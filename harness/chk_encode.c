/* Value-domain explorer for the low-level encoders and the streaming decoder.
 *   -DPROP=10  C10: cbor_encode_* emits exactly the RFC head; decoding it fires the matching callback with the identical value
 *   -DPROP=15  C15: float bit patterns survive decode and encode (NaN -> canonical quiet NaN); half encoder is total
 *   -DPROP=7   (linked into the C07 check) every encoder x value x buffer size 0..10: writes inside the buffer or leaves it untouched */
#define _GNU_SOURCE
#include <inttypes.h>
#include <math.h>

#include "cbor.h"
#include "vf.h"
#include "vf_alloc.h"
#include "vf_rec.h"
#include "vf_ref.h"

#ifndef PROP
#error "compile with -DPROP=7, 10 or 15"
#endif

enum { EK_INT, EK_LEN, EK_TAG, EK_CONST, EK_BOOL, EK_CTRL, EK_HALF, EK_SINGLE, EK_DOUBLE };
struct enc {
  const char* name;
  int kind, mt, width; /* width: 0 = shortest form, else 8/16/32/64 */
  int dom;             /* value domain in bits: 0 (none), 1 (bool), 8, 16, 32, 64 */
  uint8_t constant;
  size_t (*fn)(uint64_t v, unsigned char* b, size_t n);
};
#define W(name, T, call) \
  static size_t name(uint64_t v, unsigned char* b, size_t n) { T x = (T)v; return call; }
W(w_uint8, uint8_t, cbor_encode_uint8(x, b, n))
W(w_uint16, uint16_t, cbor_encode_uint16(x, b, n))
W(w_uint32, uint32_t, cbor_encode_uint32(x, b, n))
W(w_uint64, uint64_t, cbor_encode_uint64(x, b, n))
W(w_uint, uint64_t, cbor_encode_uint(x, b, n))
W(w_negint8, uint8_t, cbor_encode_negint8(x, b, n))
W(w_negint16, uint16_t, cbor_encode_negint16(x, b, n))
W(w_negint32, uint32_t, cbor_encode_negint32(x, b, n))
W(w_negint64, uint64_t, cbor_encode_negint64(x, b, n))
W(w_negint, uint64_t, cbor_encode_negint(x, b, n))
W(w_bs, size_t, cbor_encode_bytestring_start(x, b, n))
W(w_ts, size_t, cbor_encode_string_start(x, b, n))
W(w_as, size_t, cbor_encode_array_start(x, b, n))
W(w_ms, size_t, cbor_encode_map_start(x, b, n))
W(w_tag, uint64_t, cbor_encode_tag(x, b, n))
W(w_bool, bool, cbor_encode_bool(x, b, n))
W(w_ctrl, uint8_t, cbor_encode_ctrl(x, b, n))
static size_t w_ibs(uint64_t v, unsigned char* b, size_t n) { (void)v; return cbor_encode_indef_bytestring_start(b, n); }
static size_t w_its(uint64_t v, unsigned char* b, size_t n) { (void)v; return cbor_encode_indef_string_start(b, n); }
static size_t w_ias(uint64_t v, unsigned char* b, size_t n) { (void)v; return cbor_encode_indef_array_start(b, n); }
static size_t w_ims(uint64_t v, unsigned char* b, size_t n) { (void)v; return cbor_encode_indef_map_start(b, n); }
static size_t w_null(uint64_t v, unsigned char* b, size_t n) { (void)v; return cbor_encode_null(b, n); }
static size_t w_undef(uint64_t v, unsigned char* b, size_t n) { (void)v; return cbor_encode_undef(b, n); }
static size_t w_break(uint64_t v, unsigned char* b, size_t n) { (void)v; return cbor_encode_break(b, n); }
static size_t w_half(uint64_t v, unsigned char* b, size_t n) { uint32_t u = (uint32_t)v; float f; memcpy(&f, &u, 4); return cbor_encode_half(f, b, n); }
static size_t w_single(uint64_t v, unsigned char* b, size_t n) { uint32_t u = (uint32_t)v; float f; memcpy(&f, &u, 4); return cbor_encode_single(f, b, n); }
static size_t w_double(uint64_t v, unsigned char* b, size_t n) { double d; memcpy(&d, &v, 8); return cbor_encode_double(d, b, n); }

static const struct enc ENC[] = {
    {"cbor_encode_uint8", EK_INT, 0, 8, 8, 0, w_uint8}, {"cbor_encode_uint16", EK_INT, 0, 16, 16, 0, w_uint16},
    {"cbor_encode_uint32", EK_INT, 0, 32, 32, 0, w_uint32}, {"cbor_encode_uint64", EK_INT, 0, 64, 64, 0, w_uint64},
    {"cbor_encode_uint", EK_INT, 0, 0, 64, 0, w_uint},
    {"cbor_encode_negint8", EK_INT, 1, 8, 8, 0, w_negint8}, {"cbor_encode_negint16", EK_INT, 1, 16, 16, 0, w_negint16},
    {"cbor_encode_negint32", EK_INT, 1, 32, 32, 0, w_negint32}, {"cbor_encode_negint64", EK_INT, 1, 64, 64, 0, w_negint64},
    {"cbor_encode_negint", EK_INT, 1, 0, 64, 0, w_negint},
    {"cbor_encode_bytestring_start", EK_LEN, 2, 0, 64, 0, w_bs}, {"cbor_encode_string_start", EK_LEN, 3, 0, 64, 0, w_ts},
    {"cbor_encode_array_start", EK_LEN, 4, 0, 64, 0, w_as}, {"cbor_encode_map_start", EK_LEN, 5, 0, 64, 0, w_ms},
    {"cbor_encode_tag", EK_TAG, 6, 0, 64, 0, w_tag},
    {"cbor_encode_indef_bytestring_start", EK_CONST, 2, 0, 0, 0x5f, w_ibs}, {"cbor_encode_indef_string_start", EK_CONST, 3, 0, 0, 0x7f, w_its},
    {"cbor_encode_indef_array_start", EK_CONST, 4, 0, 0, 0x9f, w_ias}, {"cbor_encode_indef_map_start", EK_CONST, 5, 0, 0, 0xbf, w_ims},
    {"cbor_encode_null", EK_CONST, 7, 0, 0, 0xf6, w_null}, {"cbor_encode_undef", EK_CONST, 7, 0, 0, 0xf7, w_undef},
    {"cbor_encode_break", EK_CONST, 7, 0, 0, 0xff, w_break}, {"cbor_encode_bool", EK_BOOL, 7, 0, 1, 0, w_bool},
    {"cbor_encode_ctrl", EK_CTRL, 7, 0, 8, 0, w_ctrl},
    {"cbor_encode_half", EK_HALF, 7, 16, 16, 0, w_half}, {"cbor_encode_single", EK_SINGLE, 7, 32, 32, 0, w_single},
    {"cbor_encode_double", EK_DOUBLE, 7, 64, 64, 0, w_double}};
#define NENC (sizeof ENC / sizeof ENC[0])
#define SUB 64

#if PROP == 7
#define K_BASE (VC_USER + 20)
#else
#define K_BASE VC_USER
#endif
enum { K_ENCCALLS = K_BASE, K_DECCALLS, K_CTRL_UNDECODABLE, K_STRING_PAYLOAD, K_BUFSIZES, K_REFUSED_SMALL, K_CLAIMED, K_NAN, K_HALF, K_SINGLE, K_DOUBLE, K_TOTALITY, K_LOADS, K_NAN_PAYLOAD_KEPT, K_NAN_PAYLOAD_LOST, K_DUPS };
static vf_sb sb;

/* expected RFC bytes for encoder e applied to raw value v (for floats: v = bit pattern of the argument;
 * EK_HALF: v = binary32 bits of a half-representable float). returns 0 if v is outside the judged domain */
static size_t expected(const struct enc* e, uint64_t v, uint8_t* out) {
  switch (e->kind) {
    case EK_INT: return ref_put_head(out, 9, 0, (uint8_t)e->mt, v, e->width);
    case EK_LEN:
    case EK_TAG: return ref_put_head(out, 9, 0, (uint8_t)e->mt, v, 0);
    case EK_CONST: out[0] = e->constant; return 1;
    case EK_BOOL: out[0] = v ? 0xf5 : 0xf4; return 1;
    case EK_CTRL:
      if (v >= 24 && v <= 31) return 0; /* no well-formed RFC encoding exists: outside the domain */
      return ref_put_head(out, 9, 0, 7, v, v <= 23 ? -1 : 8);
    case EK_HALF: {
      uint32_t s = (uint32_t)v;
      uint16_t h;
      bool nan = ((s >> 23) & 255) == 255 && (s & 0x7fffff);
      if (nan) h = 0x7e00;
      else if (!ref_single_to_half_exact(s, &h)) return 0;
      return ref_put_head(out, 9, 0, 7, h, 16);
    }
    case EK_SINGLE: {
      uint32_t s = (uint32_t)v;
      bool nan = ((s >> 23) & 255) == 255 && (s & 0x7fffff);
      return ref_put_head(out, 9, 0, 7, nan ? 0x7fc00000u : s, 32);
    }
    default: {
      bool nan = ((v >> 52) & 2047) == 2047 && (v & 0xfffffffffffffull);
      return ref_put_head(out, 9, 0, 7, nan ? 0x7ff8000000000000ull : v, 64);
    }
  }
}

static void describe_case(const struct enc* e, uint64_t v, unsigned n) {
  uint8_t d[16];
  uint32_t idx = (uint32_t)(e - ENC);
  memcpy(d, &idx, 4);
  memcpy(d + 4, &v, 8);
  memcpy(d + 12, &n, 4);
  vf_case("enc", d, sizeof d);
}

#if PROP == 10 || PROP == 7
static bool bulk32; /* set while the thorough tier sweeps all 2^32 values of an encoder */
static void judge(const struct enc* e, uint64_t v, bool distinct) {
  uint8_t exp[16];
  size_t el = expected(e, v, exp);
  if (!el) return;
  uint8_t* end = vf_guard_end();
#if PROP == 10
  describe_case(e, v, 0);
  vf_cnt(VC_EVAL, 1);
  vf_cnt(VC_TRACES, 1);
  vf_cnt(VC_TRANS, 1);
  if (distinct) vf_cnt(VC_DISTINCT, 1);
  vf_state(vf_mix((uint64_t)(e - ENC), el));
  /* encode into an exactly-sized buffer flush against the guard page */
  uint8_t* b = end - el;
  memset(b, 0xA5, el);
  va_reset();
  size_t w = e->fn(v, b, el);
  vf_cnt(K_ENCCALLS, 1);
  if (va.requests) vf_fail(NULL, "%s allocated memory", e->name);
  if (w != el || memcmp(b, exp, el)) {
    char g[40], x[40];
    vf_hex(g, sizeof g, b, w <= 9 ? w : 9);
    vf_hex(x, sizeof x, exp, el);
    vf_fail(NULL, "%s(%#" PRIx64 ") wrote %zu bytes %s, RFC 8949 head is %s", e->name, v, w, g, x);
    return;
  }
  /* the same call with a larger (also a very large) buffer_size must write the same bytes: the size argument is a bound, not a request.
   * Only the head may be touched, and the 16 bytes in front of the guard page are all that really exists - a write beyond the head
   * would be a C07 violation and, past 16 bytes, a SIGSEGV */
  if ((distinct && !bulk32) || (v & 0xff) == 0x2a) { /* inside the thorough tier's sweep of all 2^32 values: every 256th value only */
    static const size_t CLAIM[] = {0, 1, 7, 0x7fffffffu, 0x80000000u, 0xffffffffu, 0x100000000ull, 0x100000005ull, (size_t)1 << 63, SIZE_MAX};
    for (unsigned ci = 0; ci < sizeof CLAIM / sizeof CLAIM[0]; ci++) {
      size_t claim = ci < 3 ? el + CLAIM[ci] : CLAIM[ci];
      if (claim < el) continue;
      uint8_t* big = end - 16;
      memset(big, 0xA5, 16);
      size_t w2 = e->fn(v, big, claim);
      vf_cnt(K_CLAIMED, 1);
      if (w2 != el || memcmp(big, exp, el)) {
        vf_fail(NULL, "%s(%#" PRIx64 ") with buffer_size %#zx returned %zu; with buffer_size %zu it wrote the %zu-byte RFC head", e->name, v, claim, w2, el, el);
        break;
      }
      for (size_t i = el; i < 16; i++)
        if (big[i] != 0xA5) { vf_fail(NULL, "%s(%#" PRIx64 ") with buffer_size %#zx wrote beyond the head it reported", e->name, v, claim); break; }
    }
    memcpy(b, exp, el); /* the sweep reused the bytes in front of the guard page: put the head back for the decoding step */
  }
  /* decode what was written */
  size_t total = el;
  if (e->kind == EK_LEN && (e->mt == 2 || e->mt == 3)) {
    if (v > 70000) { /* payload cannot be supplied: decoder must ask for more, which C08 judges */
      struct cbor_decoder_result r;
      vf_rec rec;
      vf_rec_reset(&rec);
      r = cbor_stream_decode(b, el, &vf_rec_callbacks, &rec);
      vf_cnt(K_DECCALLS, 1);
      if (r.status != CBOR_DECODER_NEDATA || rec.ncalls) vf_fail(NULL, "%s(%#" PRIx64 "): head without payload decoded with status %d", e->name, v, r.status);
      return;
    }
    total = el + (size_t)v;
    b = end - total;
    memcpy(b, exp, el);
    vf_cnt(K_STRING_PAYLOAD, 1);
  }
  vf_rec rec;
  vf_rec_reset(&rec);
  struct cbor_decoder_result r = cbor_stream_decode(b, total, &vf_rec_callbacks, &rec);
  vf_cnt(K_DECCALLS, 1);
  vf_outcome(vf_mix(r.status, rec.ncalls == 1 ? (uint64_t)rec.ev[0].slot : 77));
  if (e->kind == EK_CTRL && !(v >= 20 && v <= 23)) {
    vf_cnt(K_CTRL_UNDECODABLE, 1);
    if (r.status != CBOR_DECODER_ERROR || rec.ncalls) vf_fail(NULL, "simple value %" PRIu64 " decoded with status %d (only false/true/null/undefined are decodable)", v, r.status);
    return;
  }
  if (r.status != CBOR_DECODER_FINISHED || rec.ncalls != 1 || r.read != total) {
    vf_fail(NULL, "%s(%#" PRIx64 "): decoding the bytes gives status %d, %u callbacks, read %zu of %zu", e->name, v, r.status, rec.ncalls, r.read, total);
    return;
  }
  const vf_event* ev = &rec.ev[0];
  int want = -1;
  uint64_t wv = v;
  bool wnan = false;
  switch (e->kind) {
    case EK_INT: {
      int wi = e->width ? (e->width == 8 ? 0 : e->width == 16 ? 1 : e->width == 32 ? 2 : 3) : (v <= 0xff ? 0 : v <= 0xffff ? 1 : v <= 0xffffffffu ? 2 : 3);
      want = (e->mt == 0 ? S_UINT8 : S_NEGINT8) + wi;
      break;
    }
    case EK_LEN: want = e->mt == 2 ? S_BYTES : e->mt == 3 ? S_TEXT : e->mt == 4 ? S_ARRAY : S_MAP; break;
    case EK_TAG: want = S_TAG; break;
    case EK_CONST: want = e->constant == 0x5f ? S_BYTES_START : e->constant == 0x7f ? S_TEXT_START : e->constant == 0x9f ? S_ARRAY_INDEF : e->constant == 0xbf ? S_MAP_INDEF : e->constant == 0xf6 ? S_NULL : e->constant == 0xf7 ? S_UNDEF : S_BREAK; wv = 0; break;
    case EK_BOOL: want = S_BOOL; wv = v ? 1 : 0; break;
    case EK_CTRL: want = v == 20 || v == 21 ? S_BOOL : v == 22 ? S_NULL : S_UNDEF; wv = v == 21; break;
    case EK_HALF:
    case EK_SINGLE: want = e->kind == EK_HALF ? S_FLOAT2 : S_FLOAT4; wnan = ((v >> 23) & 255) == 255 && (v & 0x7fffff); wv = wnan ? 0 : (uint32_t)v; break;
    default: want = S_FLOAT8; wnan = ((v >> 52) & 2047) == 2047 && (v & 0xfffffffffffffull); wv = wnan ? 0 : v;
  }
  if (wnan) vf_cnt(K_NAN, 1);
  bool okv;
  if (want == S_BYTES || want == S_TEXT) okv = ev->slot == want && ev->len == v && ev->ptr == b + el;
  else okv = ev->slot == want && ev->val == wv && ev->isnan == wnan;
  if ((vf_cnt_get_local(VC_EVAL) & 0xffff) == 77) {
    char hx[40];
    vf_hex(hx, sizeof hx, exp, el);
    vf_sample("%s(%#" PRIx64 ") -> %s ; decoded by callback %s, read %zu", e->name, v, hx, vf_slot_name[ev->slot], r.read);
  }
  if (!okv) {
    vf_sb_reset(&sb);
    vf_event_render(ev, b, &sb);
    vf_fail(NULL, "%s(%#" PRIx64 "): decoder fired %s, expected %s with the identical value", e->name, v, sb.s, vf_slot_name[want]);
  }
#else /* PROP == 7 */
  for (unsigned n = 0; n <= 10; n++) {
    describe_case(e, v, n);
    vf_cnt(VC_EVAL, 1);
    vf_cnt(VC_TRACES, 1);
    vf_cnt(K_BUFSIZES, 1);
    if (distinct) vf_cnt(VC_DISTINCT, 1);
    uint8_t* b = end - n;
    memset(b, 0xA5, n);
    size_t w = e->fn(v, b, n);
    if (el <= n) {
      if (w != el || memcmp(b, exp, el)) vf_fail(NULL, "%s(%#" PRIx64 ", n=%u) returned %zu, expected %zu bytes written", e->name, v, n, w, el);
      for (size_t i = el; i < n; i++)
        if (b[i] != 0xA5) {
          vf_fail(NULL, "%s(%#" PRIx64 ", n=%u) wrote beyond the %zu bytes it reported", e->name, v, n, el);
          break;
        }
    } else {
      vf_cnt(K_REFUSED_SMALL, 1);
      if (w != 0) vf_fail(NULL, "%s(%#" PRIx64 ", n=%u) returned %zu although %zu bytes are needed", e->name, v, n, w, el);
      for (size_t i = 0; i < n; i++)
        if (b[i] != 0xA5) {
          vf_fail(NULL, "%s(%#" PRIx64 ", n=%u) returned 0 but modified the buffer", e->name, v, n);
          break;
        }
    }
  }
#endif
}

static void enc_unit(uint64_t u) {
  const struct enc* e = &ENC[u / SUB];
  unsigned sub = (unsigned)(u % SUB);
  bool full32 = vf_tier && PROP == 10;
  switch (e->dom) {
    case 0: if (sub == 0) judge(e, 0, true); break;
    case 1: if (sub == 0) { judge(e, 0, true); judge(e, 1, true); } break;
    case 8: for (unsigned v = sub; v < 256; v += SUB) judge(e, v, true); break;
    case 16:
      if (e->kind == EK_HALF) { /* all 65536 half patterns, widened exactly */
        for (unsigned h = sub; h < 65536; h += SUB) {
          bool nan;
          uint32_t s = ref_half_to_single_bits((uint16_t)h, &nan);
          if (nan) s = 0x7f800000u | ((h & 0x3ff) << 13) | ((uint32_t)(h >> 15) << 31);
          judge(e, s, !nan || h == 0x7e00);
        }
      } else
        for (unsigned v = sub; v < 65536; v += SUB) judge(e, v, true);
      break;
    case 32:
      if (full32) {
        for (unsigned i = sub; i < VF_NS32; i += SUB) judge(e, VF_S32[i], true); /* the structured values with the claimed-size sweep */
        bulk32 = true;
        for (uint64_t v = sub; v < (1ull << 32); v += SUB) judge(e, v, true);
        bulk32 = false;
      } else {
        for (unsigned i = sub; i < VF_NS32; i += SUB) judge(e, VF_S32[i], true);
        for (unsigned v = sub; v < 70000; v += SUB) judge(e, v, false);
        /* every value of every byte position */
        for (unsigned byte = 0; byte < 4; byte++)
          for (unsigned x = sub; x < 256; x += SUB) judge(e, ((uint64_t)x << (8 * byte)) | (0x01010101u & ~(0xffu << (8 * byte))), false);
      }
      break;
    default:
      for (unsigned i = sub; i < VF_NS64; i += SUB) judge(e, VF_S64[i], true);
      for (unsigned v = sub; v < 70000; v += SUB) judge(e, v, false);
      for (unsigned byte = 0; byte < 8; byte++)
        for (unsigned x = sub; x < 256; x += SUB) judge(e, ((uint64_t)x << (8 * byte)) | (0x0101010101010101ull & ~(0xffull << (8 * byte))), false);
      if (full32 && e->width == 0)
        for (uint64_t v = sub; v < (1ull << 32); v += SUB * 257ull) judge(e, v, false);
      if (e->kind == EK_DOUBLE) /* every sign x exponent class with boundary mantissas */
        for (unsigned se = sub; se < 4096; se += SUB) {
          static const uint64_t M[] = {0, 1, 2, 0xfffffffffffffull, 0x8000000000000ull, 0x7ffffffffffffull, 0x8000000000001ull, 0xaaaaaaaaaaaaaull, 0x5555555555555ull, 0x1000000000ull, 0xfffffffffull};
          for (unsigned m = 0; m < sizeof M / sizeof M[0]; m++) judge(e, ((uint64_t)se << 52) | M[m], true);
        }
  }
}
#endif

#if PROP == 7
uint64_t vf_encoders_units(void) { return NENC * SUB; }
void vf_encoders_unit(uint64_t u) { enc_unit(u); }
void vf_encoders_init(void) { vf_sets_init(); vf_guard_end(); }
void vf_encoders_replay(const uint8_t* d, size_t len) {
  if (len < 16) return;
  uint32_t idx;
  uint64_t v;
  memcpy(&idx, d, 4);
  memcpy(&v, d + 4, 8);
  if (idx < NENC) judge(&ENC[idx], v, false);
}
#endif

#if PROP == 10
static void init(void) {
  vf_sets_init();
  va_install();
  vf_guard_end();
  vf_extra("encoders", "%zu", (size_t)NENC);
}
static uint64_t units(void) { return NENC * SUB; }
static void replay(const char* tag, const uint8_t* d, size_t len) {
  (void)tag;
  if (len < 16) return;
  uint32_t idx;
  uint64_t v;
  memcpy(&idx, d, 4);
  memcpy(&v, d + 4, 8);
  if (idx >= NENC) return;
  uint8_t exp[16], hx[40];
  size_t el = expected(&ENC[idx], v, exp);
  vf_hex((char*)hx, sizeof hx, exp, el);
  fprintf(stderr, "%s(%#" PRIx64 "): RFC head %s\n", ENC[idx].name, v, hx);
  judge(&ENC[idx], v, false);
}
struct vf_check vf_the_check = {
    .property = "C10",
    .level = "exploration",
    .rule = "cases = (encoder, value): all 27 cbor_encode_* functions; values exhaustive for bool, 8- and 16-bit domains (all 65536 half patterns for the half encoder), "
            "ctrl 0-23 and 32-255; 32-bit domains: structured set S32 + all values < 70000 + every value of every byte position (thorough: all 2^32 values); "
            "64-bit domains: S64 + all values < 70000 + every value of every byte position (+ 4096 sign/exponent classes x 11 mantissas for doubles); "
            "distinct_nontrivial counts distinct (encoder, value) pairs of the exhaustive/structured parts only; states = distinct (encoder, head length) classes",
    .bounds = {"exhaustive 8/16-bit domains; structured 32/64-bit sets", "exhaustive 8/16/32-bit domains; structured 64-bit sets"},
    .assumptions = {"reference head encoder ref_put_head / tokeniser ref_head (RFC 8949 section 3) are correct; pinned by ./vf setup",
                    "cbor_encode_ctrl(24..31) has no well-formed RFC encoding and is outside the judged domain",
                    "string-start heads are decoded together with a payload of the declared length when that length is <= 70000; beyond that only NEDATA is required here (C08 judges `required`)",
                    "output buffer is exactly as long as the RFC head and ends at a PROT_NONE page; additionally every pair of the exhaustive/structured parts is encoded with buffer_size = exact+1, exact+7, 2^31-1, 2^31, 2^32-1, 2^32, 2^32+5, 2^63 and SIZE_MAX (16 real bytes in front of the guard page)"},
    .counters = {[VC_EVAL] = "encoder_value_pairs_judged", [VC_DISTINCT] = "distinct_pairs", [VC_TRANS] = "encode_decode_round_trips", [VC_TRACES] = "executed_on_implementation",
                 [K_ENCCALLS] = "encoder_calls", [K_DECCALLS] = "decoder_calls", [K_CTRL_UNDECODABLE] = "simple_values_encoded_but_not_decodable",
                 [K_STRING_PAYLOAD] = "string_heads_decoded_with_payload", [K_NAN] = "NaN_inputs", [K_CLAIMED] = "calls_with_larger_claimed_buffer_sizes"},
    .init = init, .units = units, .unit = enc_unit, .replay = replay};
#endif

#if PROP == 15
static void fcase(const char* what, uint64_t bits) {
  uint8_t d[16] = {0};
  memcpy(d, &bits, 8);
  strncpy((char*)d + 8, what, 7);
  vf_case("flt", d, sizeof d);
  vf_cnt(VC_EVAL, 1);
  vf_cnt(VC_TRACES, 1);
}
/* item-level path: cbor_load -> getters -> cbor_serialize */
static void via_item(const uint8_t* bytes, size_t n, const uint8_t* expect_out, int width, uint64_t refbits, bool refnan) {
  struct cbor_load_result res;
  va_reset();
  uint8_t* in = vf_guard_put(bytes, n);
  cbor_item_t* it = cbor_load(in, n, &res);
  vf_cnt(K_LOADS, 1);
  if (!it || res.read != n) {
    vf_fail(NULL, "cbor_load of a float head failed (code %d)", res.error.code);
    return;
  }
  bool okw = cbor_isa_float_ctrl(it) && cbor_is_float(it) && cbor_float_get_width(it) == (width == 16 ? CBOR_FLOAT_16 : width == 32 ? CBOR_FLOAT_32 : CBOR_FLOAT_64);
  if (!okw) vf_fail(NULL, "decoded float item has the wrong type/width");
  else {
    uint64_t got;
    bool gnan;
    if (width == 64) {
      double d = cbor_float_get_float8(it);
      memcpy(&got, &d, 8);
      gnan = isnan(d);
      double dd = cbor_float_get_float(it);
      if (!gnan && memcmp(&dd, &d, 8)) vf_fail(NULL, "cbor_float_get_float disagrees with cbor_float_get_float8");
    } else {
      float f = width == 16 ? cbor_float_get_float2(it) : cbor_float_get_float4(it);
      uint32_t u;
      memcpy(&u, &f, 4);
      got = u;
      gnan = isnan(f);
      double dd = cbor_float_get_float(it);
      if (!gnan && dd != (double)f) vf_fail(NULL, "cbor_float_get_float disagrees with the width-specific getter");
    }
    if (gnan != refnan || (!refnan && got != refbits)) vf_fail(NULL, "item holds %#" PRIx64 " (nan=%d), IEEE-754 value is %#" PRIx64 " (nan=%d)", got, gnan, refbits, refnan);
    uint8_t* o = vf_guard_end() - n;
    memset(o, 0xA5, n);
    size_t w = cbor_serialize(it, o, n);
    if (w != n || memcmp(o, expect_out, n)) {
      char g[24], x[24];
      vf_hex(g, sizeof g, o, w <= 9 ? w : 9);
      vf_hex(x, sizeof x, expect_out, n);
      vf_fail(NULL, "serializing the decoded float gives %s, expected %s", g, x);
    }
    /* the item holds its value itself: a duplicate that is given another value and released must not change what the item encodes to */
    cbor_item_t* c = cbor_copy(it);
    if (!c) vf_fail(NULL, "cbor_copy of a float item failed");
    else {
      if (width == 64) cbor_set_float8(c, -2.5); else if (width == 32) cbor_set_float4(c, -2.5f); else cbor_set_float2(c, -2.5f);
      cbor_decref(&c);
      memset(o, 0xA5, n);
      w = cbor_serialize(it, o, n);
      vf_cnt(K_DUPS, 1);
      if (w != n || memcmp(o, expect_out, n)) vf_fail(NULL, "after a copy of the item was set to -2.5 and released, the item itself no longer encodes to its original bytes");
    }
  }
  cbor_decref(&it);
  if (va.live) {
    vf_fail(NULL, "float item leaked");
    va_release_all();
  }
}
static void one_half(unsigned h) {
  fcase("half", h);
  vf_cnt(K_HALF, 1);
  vf_cnt(VC_DISTINCT, 1);
  bool nan;
  uint32_t ref = ref_half_to_single_bits((uint16_t)h, &nan);
  uint8_t in[3] = {0xf9, (uint8_t)(h >> 8), (uint8_t)h}, outb[3] = {0xf9, (uint8_t)(h >> 8), (uint8_t)h};
  if (nan) { outb[1] = 0x7e; outb[2] = 0x00; vf_cnt(K_NAN, 1); }
  vf_rec rec;
  vf_rec_reset(&rec);
  uint8_t* p = vf_guard_put(in, 3);
  struct cbor_decoder_result r = cbor_stream_decode(p, 3, &vf_rec_callbacks, &rec);
  vf_cnt(VC_TRANS, 1);
  if (r.status != CBOR_DECODER_FINISHED || rec.ncalls != 1 || rec.ev[0].slot != S_FLOAT2 || rec.ev[0].isnan != nan || (!nan && rec.ev[0].val != ref))
    vf_fail(NULL, "half %04x decodes to %#" PRIx64 " (nan=%d, slot %d), IEEE-754 value is %#x (nan=%d)", h, rec.ev[0].val, rec.ev[0].isnan, rec.ncalls ? rec.ev[0].slot : -1, ref, nan);
  else {
    /* encode the decoded value again */
    float f;
    uint32_t u = nan ? 0x7fc00000u : ref;
    memcpy(&f, &u, 4);
    uint8_t* o = vf_guard_end() - 3;
    memset(o, 0xA5, 3);
    size_t w = cbor_encode_half(f, o, 3);
    if (w != 3 || memcmp(o, outb, 3)) vf_fail(NULL, "cbor_encode_half of the value of %04x gives %02x%02x%02x", h, o[0], o[1], o[2]);
  }
  via_item(in, 3, outb, 16, ref, nan);
  if ((h & 0x1fff) == 0x1234) vf_sample("half %04x -> binary32 %08x%s -> re-encoded f9%02x%02x", h, ref, nan ? " (NaN)" : "", outb[1], outb[2]);
  vf_state(vf_mix(16, (h >> 10) & 63));
}
static void one_single(uint32_t s, bool item, bool distinct) {
  fcase("single", s);
  vf_cnt(K_SINGLE, 1);
  if (distinct) vf_cnt(VC_DISTINCT, 1);
  bool nan = ((s >> 23) & 255) == 255 && (s & 0x7fffff);
  uint8_t in[5] = {0xfa, (uint8_t)(s >> 24), (uint8_t)(s >> 16), (uint8_t)(s >> 8), (uint8_t)s}, outb[5];
  memcpy(outb, in, 5);
  if (nan) { outb[1] = 0x7f; outb[2] = 0xc0; outb[3] = outb[4] = 0; vf_cnt(K_NAN, 1); }
  vf_rec rec;
  vf_rec_reset(&rec);
  uint8_t* p = vf_guard_put(in, 5);
  struct cbor_decoder_result r = cbor_stream_decode(p, 5, &vf_rec_callbacks, &rec);
  vf_cnt(VC_TRANS, 1);
  if (r.status != CBOR_DECODER_FINISHED || rec.ncalls != 1 || rec.ev[0].slot != S_FLOAT4 || rec.ev[0].isnan != nan || (!nan && rec.ev[0].val != s))
    vf_fail(NULL, "single %08x decodes to %#" PRIx64 " (nan=%d)", s, rec.ev[0].val, rec.ev[0].isnan);
  else if (nan) vf_cnt(rec.ev[0].len == s ? K_NAN_PAYLOAD_KEPT : K_NAN_PAYLOAD_LOST, 1); /* recorded, not judged: the properties require NaN-ness only */
  float f;
  memcpy(&f, &s, 4);
  uint8_t* o = vf_guard_end() - 5;
  memset(o, 0xA5, 5);
  size_t w = cbor_encode_single(f, o, 5);
  if (w != 5 || memcmp(o, outb, 5)) vf_fail(NULL, "cbor_encode_single(%08x) gives %02x%02x%02x%02x%02x", s, o[0], o[1], o[2], o[3], o[4]);
  /* totality of the half encoder: three bytes, no UB (UBSan/ASan are live), and the exact half when one exists */
  o = vf_guard_end() - 3;
  memset(o, 0xA5, 3);
  w = cbor_encode_half(f, o, 3);
  vf_cnt(K_TOTALITY, 1);
  uint16_t hx;
  if (w != 3 || o[0] != 0xf9) vf_fail(NULL, "cbor_encode_half(%08x) returned %zu / initial byte %02x", s, w, o[0]);
  else if (nan) { if (o[1] != 0x7e || o[2] != 0) vf_fail(NULL, "cbor_encode_half(NaN %08x) gives %02x%02x, expected canonical 7e00", s, o[1], o[2]); }
  else if (ref_single_to_half_exact(s, &hx) && (o[1] != (hx >> 8) || o[2] != (hx & 255)))
    vf_fail(NULL, "cbor_encode_half(%08x): value is exactly half %04x but %02x%02x was written", s, hx, o[1], o[2]);
  if (item) via_item(in, 5, outb, 32, s, nan);
  vf_state(vf_mix(32, s >> 23));
}
static void one_double(uint64_t d, bool distinct) {
  fcase("double", d);
  vf_cnt(K_DOUBLE, 1);
  if (distinct) vf_cnt(VC_DISTINCT, 1);
  bool nan = ((d >> 52) & 2047) == 2047 && (d & 0xfffffffffffffull);
  uint8_t in[9] = {0xfb}, outb[9];
  for (int i = 0; i < 8; i++) in[1 + i] = (uint8_t)(d >> (8 * (7 - i)));
  memcpy(outb, in, 9);
  if (nan) { memset(outb + 1, 0, 8); outb[1] = 0x7f; outb[2] = 0xf8; vf_cnt(K_NAN, 1); }
  vf_rec rec;
  vf_rec_reset(&rec);
  uint8_t* p = vf_guard_put(in, 9);
  struct cbor_decoder_result r = cbor_stream_decode(p, 9, &vf_rec_callbacks, &rec);
  vf_cnt(VC_TRANS, 1);
  if (r.status != CBOR_DECODER_FINISHED || rec.ncalls != 1 || rec.ev[0].slot != S_FLOAT8 || rec.ev[0].isnan != nan || (!nan && rec.ev[0].val != d))
    vf_fail(NULL, "double %016" PRIx64 " decodes to %#" PRIx64 " (nan=%d)", d, rec.ev[0].val, rec.ev[0].isnan);
  else if (nan) vf_cnt(rec.ev[0].len == d ? K_NAN_PAYLOAD_KEPT : K_NAN_PAYLOAD_LOST, 1);
  double x;
  memcpy(&x, &d, 8);
  uint8_t* o = vf_guard_end() - 9;
  memset(o, 0xA5, 9);
  size_t w = cbor_encode_double(x, o, 9);
  if (w != 9 || memcmp(o, outb, 9)) vf_fail(NULL, "cbor_encode_double(%016" PRIx64 ") does not reproduce the bytes", d);
  via_item(in, 9, outb, 64, d, nan);
  vf_state(vf_mix(64, d >> 52));
}
static const uint32_t M23[] = {0, 1, 2, 0x7fffff, 0x400000, 0x3fffff, 0x400001, 0x2aaaaa, 0x555555, 0x1000, 0xfff, 0x1fff, 0x2000, 0x7fe000};
static const uint64_t M52[] = {0, 1, 2, 0xfffffffffffffull, 0x8000000000000ull, 0x7ffffffffffffull, 0x8000000000001ull, 0xaaaaaaaaaaaaaull, 0x5555555555555ull, 0x1000000000ull, 0xfffffffffull, 0x20000000ull, 0x1fffffffull};
#define USUB 256
static void unit15(uint64_t u) {
  /* halves: exhaustive in both tiers */
  for (unsigned h = (unsigned)u; h < 65536; h += USUB) one_half(h);
  if (vf_tier) {
    /* all 2^32 single patterns */
    for (uint64_t s = u; s < (1ull << 32); s += USUB) one_single((uint32_t)s, (s & 0xfff) == (u & 0xfff), true);
  } else {
    /* all 512 sign x exponent classes x structured mantissas (incl. every single-bit mantissa) */
    for (unsigned se = (unsigned)u; se < 512; se += USUB) {
      for (unsigned m = 0; m < sizeof M23 / sizeof M23[0]; m++) one_single(((uint32_t)se << 23) | M23[m], true, true);
      for (unsigned k = 0; k < 23; k++) {
        one_single(((uint32_t)se << 23) | (1u << k), false, true);
        one_single(((uint32_t)se << 23) | (0x7fffffu & ~(1u << k)), false, true);
      }
    }
    /* plus a stride that visits every value of every byte position */
    for (uint64_t s = u; s < (1ull << 32); s += USUB * 4099ull) one_single((uint32_t)s, false, false);
  }
  for (unsigned se = (unsigned)u; se < 4096; se += USUB) {
    for (unsigned m = 0; m < sizeof M52 / sizeof M52[0]; m++) one_double(((uint64_t)se << 52) | M52[m], true);
    for (unsigned k = 0; k < 52; k++) one_double(((uint64_t)se << 52) | (1ull << k), true);
  }
  for (unsigned i = (unsigned)u; i < VF_NS64; i += USUB) one_double(VF_S64[i], false);
}
static uint64_t units15(void) { return USUB; }
static void init15(void) {
  vf_sets_init();
  va_install();
  vf_guard_end();
}
static void replay15(const char* tag, const uint8_t* d, size_t len) {
  (void)tag;
  if (len < 16) return;
  uint64_t bits;
  memcpy(&bits, d, 8);
  if (!strncmp((const char*)d + 8, "half", 4)) one_half((unsigned)bits);
  else if (!strncmp((const char*)d + 8, "single", 6)) one_single((uint32_t)bits, true, false);
  else one_double(bits, false);
}
struct vf_check vf_the_check = {
    .property = "C15",
    .level = "exploration",
    .rule = "cases = float bit patterns: all 65536 half patterns (both tiers); singles: all 2^32 patterns (thorough) / all 512 sign-exponent classes x 14 boundary mantissas "
            "and every single-bit and single-zero-bit mantissa, plus a stride-4099x256 sweep (quick); doubles: all 4096 sign-exponent classes x 13 boundary mantissas and every "
            "single-bit mantissa, plus the structured set S64 reinterpreted as bits; each pattern goes through cbor_stream_decode (value compared with an integer-arithmetic "
            "IEEE-754 conversion), cbor_encode_* of the decoded value, and (for all halves/doubles, a subset of singles) cbor_load -> getters -> cbor_serialize; every single "
            "pattern is also fed to cbor_encode_half (totality). distinct_nontrivial = distinct patterns of the exhaustive/structured parts; states = distinct (width, sign-exponent class)",
    .bounds = {"halves exhaustive; singles 512 classes x structured mantissas + stride; doubles 4096 classes x structured mantissas",
               "halves and singles exhaustive (2^16 + 2^32 patterns); doubles 4096 classes x structured mantissas"},
    .assumptions = {"ref_half_to_single_bits / ref_single_to_half_exact (integer arithmetic only) are correct; cross-checked against the compiler's _Float16 conversions for all 65536 halves by ./vf setup",
                    "NaN payload and sign are not required to survive (the property requires only the canonical quiet NaN on output); NaN-ness must",
                    "built with UBSan (float-cast-overflow, shift, signed overflow) and ASan: 'without undefined behaviour' is checked by the sanitizer on every call",
                    "the host is IEEE-754 little-endian x86-64"},
    .counters = {[VC_EVAL] = "patterns_judged", [VC_DISTINCT] = "distinct_patterns", [VC_TRANS] = "stream_decodes", [VC_TRACES] = "executed_on_implementation",
                 [K_HALF] = "half_patterns", [K_SINGLE] = "single_patterns", [K_DOUBLE] = "double_patterns", [K_TOTALITY] = "encode_half_totality_calls",
                 [K_LOADS] = "item_level_round_trips", [K_DUPS] = "items_re_encoded_after_a_duplicate_was_changed_and_released", [K_NAN] = "NaN_patterns",
                 [K_NAN_PAYLOAD_KEPT] = "recorded_not_judged_single_double_NaNs_decoded_with_payload_and_sign_intact", [K_NAN_PAYLOAD_LOST] = "recorded_not_judged_single_double_NaNs_decoded_to_another_NaN"},
    .init = init15, .units = units15, .unit = unit15, .replay = replay15};
#endif
