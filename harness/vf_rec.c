#define _GNU_SOURCE
#include "vf_rec.h"

#include <inttypes.h>
#include <sys/mman.h>
const char* vf_slot_name[S_NSLOTS] = {"uint8", "uint16", "uint32", "uint64", "negint8", "negint16", "negint32", "negint64", "byte_string",
                                      "byte_string_start", "string", "string_start", "array_start", "indef_array_start", "map_start", "indef_map_start",
                                      "tag", "float2", "float4", "float8", "undefined", "null", "boolean", "indef_break"};
static void put(void* c, int slot, uint64_t v, bool isnan, const uint8_t* p, uint64_t len) {
  vf_rec* r = c;
  if (r->ncalls < 4) r->ev[r->ncalls] = (vf_event){slot, v, isnan, p, len};
  r->ncalls++;
  r->per_slot[slot]++;
}
static void f32ev(void* c, int slot, float f) {
  uint32_t u;
  memcpy(&u, &f, 4);
  bool n = ((u >> 23) & 255) == 255 && (u & 0x7fffff);
  put(c, slot, n ? 0 : u, n, NULL, n ? u : 0); /* len carries the raw bits of a NaN: recorded, never compared */
}
static void c_uint8(void* c, uint8_t v) { put(c, S_UINT8, v, 0, 0, 0); }
static void c_uint16(void* c, uint16_t v) { put(c, S_UINT16, v, 0, 0, 0); }
static void c_uint32(void* c, uint32_t v) { put(c, S_UINT32, v, 0, 0, 0); }
static void c_uint64(void* c, uint64_t v) { put(c, S_UINT64, v, 0, 0, 0); }
static void c_negint8(void* c, uint8_t v) { put(c, S_NEGINT8, v, 0, 0, 0); }
static void c_negint16(void* c, uint16_t v) { put(c, S_NEGINT16, v, 0, 0, 0); }
static void c_negint32(void* c, uint32_t v) { put(c, S_NEGINT32, v, 0, 0, 0); }
static void c_negint64(void* c, uint64_t v) { put(c, S_NEGINT64, v, 0, 0, 0); }
static void c_bytes(void* c, cbor_data p, uint64_t l) { put(c, S_BYTES, 0, 0, p, l); }
static void c_bytes_start(void* c) { put(c, S_BYTES_START, 0, 0, 0, 0); }
static void c_text(void* c, cbor_data p, uint64_t l) { put(c, S_TEXT, 0, 0, p, l); }
static void c_text_start(void* c) { put(c, S_TEXT_START, 0, 0, 0, 0); }
static void c_array(void* c, uint64_t v) { put(c, S_ARRAY, v, 0, 0, 0); }
static void c_array_indef(void* c) { put(c, S_ARRAY_INDEF, 0, 0, 0, 0); }
static void c_map(void* c, uint64_t v) { put(c, S_MAP, v, 0, 0, 0); }
static void c_map_indef(void* c) { put(c, S_MAP_INDEF, 0, 0, 0, 0); }
static void c_tag(void* c, uint64_t v) { put(c, S_TAG, v, 0, 0, 0); }
static void c_float2(void* c, float f) { f32ev(c, S_FLOAT2, f); }
static void c_float4(void* c, float f) { f32ev(c, S_FLOAT4, f); }
static void c_float8(void* c, double d) {
  uint64_t u;
  memcpy(&u, &d, 8);
  bool n = ((u >> 52) & 2047) == 2047 && (u & 0xfffffffffffffull);
  put(c, S_FLOAT8, n ? 0 : u, n, NULL, n ? u : 0);
}
static void c_undef(void* c) { put(c, S_UNDEF, 0, 0, 0, 0); }
static void c_null(void* c) { put(c, S_NULL, 0, 0, 0, 0); }
static void c_bool(void* c, bool b) { put(c, S_BOOL, b, 0, 0, 0); }
static void c_break(void* c) { put(c, S_BREAK, 0, 0, 0, 0); }
const struct cbor_callbacks vf_rec_callbacks = {
    .uint8 = c_uint8, .uint16 = c_uint16, .uint32 = c_uint32, .uint64 = c_uint64,
    .negint8 = c_negint8, .negint16 = c_negint16, .negint32 = c_negint32, .negint64 = c_negint64,
    .byte_string = c_bytes, .byte_string_start = c_bytes_start, .string = c_text, .string_start = c_text_start,
    .array_start = c_array, .indef_array_start = c_array_indef, .map_start = c_map, .indef_map_start = c_map_indef,
    .tag = c_tag, .float2 = c_float2, .float4 = c_float4, .float8 = c_float8, .undefined = c_undef, .null = c_null,
    .boolean = c_bool, .indef_break = c_break};

void vf_expected_event(const uint8_t* b, size_t p, const rhead* h, vf_event* e) {
  memset(e, 0, sizeof *e);
  int wi = h->argw <= 1 ? 0 : h->argw == 2 ? 1 : h->argw == 4 ? 2 : 3;
  switch (h->mt) {
    case 0: e->slot = S_UINT8 + wi; e->val = h->arg; break;
    case 1: e->slot = S_NEGINT8 + wi; e->val = h->arg; break;
    case 2:
    case 3:
      if (h->indef) e->slot = h->mt == 2 ? S_BYTES_START : S_TEXT_START;
      else {
        e->slot = h->mt == 2 ? S_BYTES : S_TEXT;
        e->ptr = b + p + h->hl;
        e->len = h->plen;
      }
      break;
    case 4: e->slot = h->indef ? S_ARRAY_INDEF : S_ARRAY; e->val = h->arg; break;
    case 5: e->slot = h->indef ? S_MAP_INDEF : S_MAP; e->val = h->arg; break;
    case 6: e->slot = S_TAG; e->val = h->arg; break;
    default:
      if (h->is_break) e->slot = S_BREAK;
      else if (h->ai == 20 || h->ai == 21) { e->slot = S_BOOL; e->val = h->ai == 21; }
      else if (h->ai == 22) e->slot = S_NULL;
      else if (h->ai == 23) e->slot = S_UNDEF;
      else if (h->ai == 25) { e->slot = S_FLOAT2; e->val = ref_half_to_single_bits((uint16_t)h->arg, &e->isnan); }
      else if (h->ai == 26) {
        uint32_t s = (uint32_t)h->arg;
        e->slot = S_FLOAT4;
        e->isnan = ((s >> 23) & 255) == 255 && (s & 0x7fffff);
        e->val = e->isnan ? 0 : s;
      } else {
        uint64_t d = h->arg;
        e->slot = S_FLOAT8;
        e->isnan = ((d >> 52) & 2047) == 2047 && (d & 0xfffffffffffffull);
        e->val = e->isnan ? 0 : d;
      }
  }
}
bool vf_event_equal(const vf_event* a, const vf_event* b) {
  if (a->isnan && b->isnan) return a->slot == b->slot; /* NaN-ness, not payload (DESIGN 6.1) */
  return a->slot == b->slot && a->val == b->val && a->isnan == b->isnan && a->ptr == b->ptr && a->len == b->len;
}
void vf_event_render(const vf_event* e, const uint8_t* base, vf_sb* o) {
  vf_sb_printf(o, "%s(", vf_slot_name[e->slot]);
  if (e->slot == S_BYTES || e->slot == S_TEXT) vf_sb_printf(o, "buf+%td, len=%" PRIu64, e->ptr - base, e->len);
  else if (e->isnan) vf_sb_printf(o, "NaN");
  else vf_sb_printf(o, "%#" PRIx64, e->val);
  vf_sb_printf(o, ")");
}

static uint8_t* guard_base;
uint8_t* vf_guard_end(void) {
  if (!guard_base) {
    size_t sz = VF_GUARD_MAX + 4096;
    guard_base = mmap(NULL, sz + 4096, PROT_READ | PROT_WRITE, MAP_PRIVATE | MAP_ANONYMOUS, -1, 0);
    if (guard_base == MAP_FAILED) abort();
    if (mprotect(guard_base + sz, 4096, PROT_NONE)) abort();
    memset(guard_base, 0x5a, sz);
  }
  return guard_base + VF_GUARD_MAX + 4096;
}
uint8_t* vf_guard_put(const void* src, size_t n) {
  uint8_t* p = vf_guard_end() - n;
  if (n) memcpy(p, src, n);
  return p;
}

uint64_t VF_S64[512];
unsigned VF_NS64;
uint32_t VF_S32[256];
unsigned VF_NS32;
static void add64(uint64_t v) {
  for (unsigned i = 0; i < VF_NS64; i++)
    if (VF_S64[i] == v) return;
  VF_S64[VF_NS64++] = v;
}
static void add32(uint32_t v) {
  for (unsigned i = 0; i < VF_NS32; i++)
    if (VF_S32[i] == v) return;
  VF_S32[VF_NS32++] = v;
}
void vf_sets_init(void) {
  VF_NS64 = VF_NS32 = 0;
  static const uint64_t b[] = {0, 1, 22, 23, 24, 25, 254, 255, 256, 257, 65534, 65535, 65536, 65537, 0xfffffffeull, 0xffffffffull, 0x100000000ull, 0x100000001ull};
  for (unsigned i = 0; i < sizeof b / sizeof b[0]; i++) add64(b[i]);
  for (int k = 0; k < 64; k++) {
    add64(1ull << k);
    add64((1ull << k) + 1);
    add64((1ull << k) - 1);
  }
  for (uint64_t j = 0; j <= 16; j++) add64(UINT64_MAX - j);
  add64(0x0102030405060708ull);
  add64(0x0807060504030201ull);
  add64(0x8000000000000001ull);
  add64(0xaaaaaaaaaaaaaaaaull);
  add64(0x5555555555555555ull);
  add64(0x00ff00ff00ff00ffull);
  add64(0xff00ff00ff00ff00ull);
  static const uint32_t c[] = {0, 1, 22, 23, 24, 25, 254, 255, 256, 257, 65534, 65535, 65536, 65537, 0xfffffffeu, 0xffffffffu};
  for (unsigned i = 0; i < sizeof c / sizeof c[0]; i++) add32(c[i]);
  for (int k = 0; k < 32; k++) {
    add32(1u << k);
    add32((1u << k) + 1);
    add32((1u << k) - 1);
  }
  for (uint32_t j = 0; j <= 16; j++) add32(UINT32_MAX - j);
  add32(0x01020304u);
  add32(0x04030201u);
  add32(0x80000001u);
  add32(0xaaaaaaaau);
  add32(0x55555555u);
  add32(0x00ff00ffu);
  add32(0xff00ff00u);
}
