#include "vf_ref.h"

#include <inttypes.h>

/* ------------------------------------------------------------------ arena */
struct chunk {
  struct chunk* next;
  size_t cap, used;
  unsigned char mem[];
};
static struct chunk *chunks, *cur_chunk;
void ref_arena_reset(void) {
  for (struct chunk* c = chunks; c; c = c->next) c->used = 0;
  cur_chunk = chunks;
}
void* ref_arena_alloc(size_t n) {
  n = (n + 15) & ~(size_t)15;
  while (cur_chunk && cur_chunk->cap - cur_chunk->used < n) cur_chunk = cur_chunk->next;
  if (!cur_chunk) {
    size_t cap = n > (1u << 20) ? n : (1u << 20);
    struct chunk* c = malloc(sizeof *c + cap);
    if (!c) abort();
    c->cap = cap;
    c->used = 0;
    c->next = NULL;
    /* append */
    if (!chunks)
      chunks = c;
    else {
      struct chunk* t = chunks;
      while (t->next) t = t->next;
      t->next = c;
    }
    cur_chunk = c;
  }
  void* p = cur_chunk->mem + cur_chunk->used;
  cur_chunk->used += n;
  memset(p, 0, n);
  return p;
}
rnode* ref_new(int kind) {
  rnode* r = ref_arena_alloc(sizeof *r);
  r->kind = (uint8_t)kind;
  return r;
}
void ref_add_kid(rnode* p, rnode* k) {
  if (p->nkids == p->kcap) {
    size_t nc = p->kcap ? p->kcap * 2 : 4;
    rnode** nk = ref_arena_alloc(nc * sizeof *nk);
    if (p->nkids) memcpy(nk, p->kids, p->nkids * sizeof *nk);
    p->kids = nk;
    p->kcap = nc;
  }
  p->kids[p->nkids++] = k;
}

/* ------------------------------------------------------------------ tokeniser (RFC 8949 s.3, App. C) */
int ref_head(const uint8_t* b, size_t n, size_t p, rhead* h) {
  memset(h, 0, sizeof *h);
  if (p >= n) {
    h->need = 1;
    return RH_NEED;
  }
  uint8_t ib = b[p];
  h->ib = ib;
  h->mt = ib >> 5;
  h->ai = ib & 31;
  h->hl = 1;
  if (h->ai < 24) {
    h->arg = h->ai;
  } else if (h->ai < 28) {
    h->argw = 1u << (h->ai - 24);
    h->hl = 1 + h->argw;
    /* libcbor profile: the one-byte simple form (0xf8) is an unsupported initial byte */
    if (h->mt == 7 && h->ai == 24) return RH_BAD;
    if (n - p < h->hl) {
      h->need = h->hl;
      return RH_NEED;
    }
    uint64_t v = 0;
    for (unsigned i = 0; i < h->argw; i++) v = (v << 8) | b[p + 1 + i];
    h->arg = v;
  } else if (h->ai < 31) {
    return RH_BAD; /* 28..30 reserved */
  } else {
    if (h->mt == 0 || h->mt == 1 || h->mt == 6) return RH_BAD;
    if (h->mt == 7)
      h->is_break = true;
    else
      h->indef = true;
  }
  /* libcbor profile: simple values other than false/true/null/undefined are unsupported */
  if (h->mt == 7 && h->ai < 20) return RH_BAD;
  h->full = h->hl;
  if ((h->mt == 2 || h->mt == 3) && !h->indef) {
    h->plen = h->arg;
    h->full = (unsigned __int128)h->hl + h->plen;
    if ((unsigned __int128)(n - p) < h->full) {
      h->need = h->full;
      return RH_NEED;
    }
  }
  return RH_OK;
}

/* ------------------------------------------------------------------ IEEE 754 */
uint32_t ref_half_to_single_bits(uint16_t h, bool* isnan) {
  uint32_t sign = (uint32_t)(h >> 15) << 31;
  uint32_t e = (h >> 10) & 31, m = h & 1023;
  *isnan = false;
  if (e == 31) {
    if (m) {
      *isnan = true;
      return 0;
    }
    return sign | 0x7f800000u;
  }
  if (e == 0) {
    if (m == 0) return sign;
    /* subnormal: m * 2^-24 ; normalise */
    int shift = 0;
    while (!(m & 0x400)) {
      m <<= 1;
      shift++;
    }
    m &= 0x3ff;
    uint32_t e32 = (uint32_t)(127 - 15 + 1 - shift);
    return sign | (e32 << 23) | (m << 13);
  }
  return sign | ((e - 15 + 127) << 23) | (m << 13);
}
bool ref_single_to_half_exact(uint32_t s, uint16_t* h) {
  uint16_t sign = (uint16_t)((s >> 31) << 15);
  uint32_t e = (s >> 23) & 255, m = s & 0x7fffff;
  if (e == 255) {
    if (m) return false; /* NaN handled by caller */
    *h = sign | 0x7c00;
    return true;
  }
  if (e == 0) {
    if (m) return false; /* single subnormals are far below half range */
    *h = sign;
    return true;
  }
  int le = (int)e - 127;
  if (le > 15) return false;
  if (le >= -14) {
    if (m & 0x1fff) return false;
    *h = (uint16_t)(sign | ((uint32_t)(le + 15) << 10) | (m >> 13));
    return true;
  }
  if (le < -24) return false;
  /* half subnormal: value = 1.m * 2^le = k * 2^-24 */
  uint32_t full = m | 0x800000; /* 24-bit significand, value = full * 2^(le-23) */
  int sh = -le - 24 + 23;       /* k = full >> sh must be exact, sh in 13..23 */
  if (full & ((1u << sh) - 1)) return false;
  *h = (uint16_t)(sign | (full >> sh));
  return true;
}

/* ------------------------------------------------------------------ RFC 3629 (explicit ranges of section 4) */
int64_t ref_utf8_count(const uint8_t* s, size_t n) {
  size_t i = 0;
  int64_t cnt = 0;
#define TAIL(k) (i + (k) < n && s[i + (k)] >= 0x80 && s[i + (k)] <= 0xBF)
  while (i < n) {
    uint8_t c = s[i];
    if (c <= 0x7F) {
      i += 1;
    } else if (c >= 0xC2 && c <= 0xDF) {
      if (!TAIL(1)) return -1;
      i += 2;
    } else if (c == 0xE0) {
      if (!(i + 1 < n && s[i + 1] >= 0xA0 && s[i + 1] <= 0xBF) || !TAIL(2)) return -1;
      i += 3;
    } else if ((c >= 0xE1 && c <= 0xEC) || c == 0xEE || c == 0xEF) {
      if (!TAIL(1) || !TAIL(2)) return -1;
      i += 3;
    } else if (c == 0xED) {
      if (!(i + 1 < n && s[i + 1] >= 0x80 && s[i + 1] <= 0x9F) || !TAIL(2)) return -1;
      i += 3;
    } else if (c == 0xF0) {
      if (!(i + 1 < n && s[i + 1] >= 0x90 && s[i + 1] <= 0xBF) || !TAIL(2) || !TAIL(3)) return -1;
      i += 4;
    } else if (c >= 0xF1 && c <= 0xF3) {
      if (!TAIL(1) || !TAIL(2) || !TAIL(3)) return -1;
      i += 4;
    } else if (c == 0xF4) {
      if (!(i + 1 < n && s[i + 1] >= 0x80 && s[i + 1] <= 0x8F) || !TAIL(2) || !TAIL(3)) return -1;
      i += 4;
    } else {
      return -1;
    }
    cnt++;
  }
#undef TAIL
  return cnt;
}

/* ------------------------------------------------------------------ reference decoder */
typedef struct {
  rnode* node;
  char k;          /* B T A M a m g */
  uint64_t rem;    /* outstanding children for a m g */
  uint64_t cfg;    /* hash of the abstract stack configuration up to and including this frame */
} frame;

static uint64_t frame_cfg(uint64_t below, const frame* f) {
  uint64_t r;
  switch (f->k) {
    case 'a': r = f->rem > 3 ? 3 : f->rem; break;
    case 'm': r = (f->rem > 5 ? 4 + (f->rem & 1) : f->rem); break; /* keeps key/value parity */
    case 'M': r = f->node->nkids & 1; break;
    case 'B': case 'T': r = f->node->nkids > 1 ? 1 : f->node->nkids; break;
    default: r = 0;
  }
  return vf_mix(vf_mix(below, (uint64_t)f->k), r);
}

static rnode* leaf_from_head(const uint8_t* b, const rhead* h, size_t p) {
  rnode* r;
  switch (h->mt) {
    case 0:
    case 1:
      r = ref_new(h->mt == 0 ? RK_UINT : RK_NEGINT);
      r->width = h->argw <= 1 ? 8 : (uint8_t)(h->argw * 8);
      r->val = h->arg;
      return r;
    case 2:
      r = ref_new(RK_BYTES);
      r->bytes = b + p + h->hl;
      r->len = (size_t)h->plen;
      return r;
    case 3: {
      r = ref_new(RK_TEXT);
      r->bytes = b + p + h->hl;
      r->len = (size_t)h->plen;
      int64_t c = ref_utf8_count(r->bytes, r->len);
      r->cp = c < 0 ? 0 : c;
      return r;
    }
    case 4:
      r = ref_new(RK_ARRAY);
      return r;
    case 5:
      r = ref_new(RK_MAP);
      return r;
    case 7:
      if (h->ai >= 20 && h->ai <= 23) {
        r = ref_new(RK_SIMPLE);
        r->val = h->ai;
        return r;
      }
      r = ref_new(RK_FLOAT);
      if (h->ai == 25) {
        r->width = 16;
        r->val = ref_half_to_single_bits((uint16_t)h->arg, &r->isnan);
      } else if (h->ai == 26) {
        r->width = 32;
        uint32_t s = (uint32_t)h->arg;
        r->isnan = ((s >> 23) & 255) == 255 && (s & 0x7fffff);
        r->val = r->isnan ? 0 : s;
      } else {
        r->width = 64;
        uint64_t d = h->arg;
        r->isnan = ((d >> 52) & 2047) == 2047 && (d & 0xfffffffffffffull);
        r->val = r->isnan ? 0 : d;
      }
      return r;
  }
  return NULL;
}

void ref_decode(const uint8_t* b, size_t n, size_t L, uint64_t alloc_cap, void (*on_state)(uint64_t), rdecode* out) {
  memset(out, 0, sizeof *out);
  static frame* st;
  static size_t stcap;
  size_t depth = 0;
  bool have_eager = false;
  int eager_code = 0;
  size_t eager_pos = 0;
#define ERR(c, p)                                   \
  do {                                              \
    out->ok = false;                                \
    out->verd[0].code = (c);                        \
    out->verd[0].pos = (p);                         \
    out->nverd = 1;                                 \
    if (have_eager && !(eager_code == (c) && eager_pos == (p))) { \
      out->verd[1].code = eager_code;               \
      out->verd[1].pos = eager_pos;                 \
      out->nverd = 2;                               \
    }                                               \
    return;                                         \
  } while (0)
  if (n == 0) ERR(R_NODATA, 0);
  size_t pos = 0;
  for (;;) {
    rhead h;
    if (pos >= n) ERR(R_NEDATA, pos);
    int hr = ref_head(b, n, pos, &h);
    if (hr == RH_NEED) ERR(R_NEDATA, pos);
    if (hr == RH_BAD) ERR(R_MALF, pos);
    size_t end = pos + h.hl + (size_t)h.plen;
    out->heads++;
    rnode* item = NULL;
    if (h.is_break) {
      if (depth > 0 && strchr("BTAM", st[depth - 1].k) && !(st[depth - 1].k == 'M' && (st[depth - 1].node->nkids & 1))) {
        item = st[--depth].node;
        pos = end;
      } else
        ERR(R_SYN, end);
    } else {
      frame f;
      memset(&f, 0, sizeof f);
      if ((h.mt == 2 || h.mt == 3) && h.indef) {
        f.k = h.mt == 2 ? 'B' : 'T';
        f.node = ref_new(h.mt == 2 ? RK_BYTES_INDEF : RK_TEXT_INDEF);
      } else if (h.mt == 4 && h.indef) {
        f.k = 'A';
        f.node = ref_new(RK_ARRAY_INDEF);
      } else if (h.mt == 5 && h.indef) {
        f.k = 'M';
        f.node = ref_new(RK_MAP_INDEF);
      } else if (h.mt == 4 && h.arg > 0) {
        f.k = 'a';
        f.rem = h.arg;
        f.node = ref_new(RK_ARRAY);
      } else if (h.mt == 5 && h.arg > 0) {
        f.k = 'm';
        f.rem = h.arg * 2;
        f.node = ref_new(RK_MAP);
      } else if (h.mt == 6) {
        f.k = 'g';
        f.rem = 1;
        f.node = ref_new(RK_TAG);
        f.node->val = h.arg;
      }
      if (f.k) {
        if (depth > 0 && (st[depth - 1].k == 'B' || st[depth - 1].k == 'T') && !have_eager) {
          have_eager = true;
          eager_code = R_SYN;
          eager_pos = end;
        }
        if ((f.k == 'a' && (unsigned __int128)h.arg * 8 > alloc_cap) ||
            (f.k == 'm' && (unsigned __int128)h.arg * 16 > alloc_cap)) {
          out->predicted_refusal = true;
          ERR(R_MEM, end);
        }
        if (depth == L) ERR(R_MEM, end);
        if (depth == stcap) {
          stcap = stcap ? stcap * 2 : 64;
          st = realloc(st, stcap * sizeof *st);
        }
        f.node->allocated = (f.k == 'a' || f.k == 'm') ? (size_t)h.arg : 0;
        st[depth] = f;
        depth++;
        if (depth > out->max_depth) out->max_depth = depth;
        st[depth - 1].cfg = frame_cfg(depth > 1 ? st[depth - 2].cfg : 0x51, &st[depth - 1]);
        if (on_state) on_state(st[depth - 1].cfg);
        pos = end;
        continue;
      }
      item = leaf_from_head(b, &h, pos);
      pos = end;
    }
    /* deliver the completed item upwards */
    for (;;) {
      if (depth == 0) {
        out->ok = true;
        out->tree = item;
        out->read = pos;
        if (on_state) on_state(0x51);
        return;
      }
      frame* top = &st[depth - 1];
      if (top->k == 'B' || top->k == 'T') {
        if (item->kind == (top->k == 'B' ? RK_BYTES : RK_TEXT)) {
          ref_add_kid(top->node, item);
          break;
        }
        ERR(R_SYN, pos);
      }
      ref_add_kid(top->node, item);
      if (top->k == 'a' || top->k == 'm' || top->k == 'g') {
        top->rem--;
        if (top->rem == 0) {
          item = top->node;
          depth--;
          continue;
        }
      }
      break;
    }
    if (depth > 0) {
      st[depth - 1].cfg = frame_cfg(depth > 1 ? st[depth - 2].cfg : 0x51, &st[depth - 1]);
      if (on_state) on_state(st[depth - 1].cfg);
    }
  }
#undef ERR
}

/* ------------------------------------------------------------------ reference encoder */
size_t ref_put_head(uint8_t* out, size_t cap, size_t o, uint8_t mt, uint64_t v, int force_w /*0=shortest*/) {
  uint8_t tmp[9];
  size_t l;
  int w = force_w;
  if (!w) w = v <= 23 ? -1 : v <= 0xff ? 8 : v <= 0xffff ? 16 : v <= 0xffffffffu ? 32 : 64;
  if (w == 8 && v <= 23) w = -1; /* 8-bit items use the immediate form up to 23 */
  if (w == -1) {
    tmp[0] = (uint8_t)(mt << 5 | v);
    l = 1;
  } else {
    int nb = w / 8;
    tmp[0] = (uint8_t)(mt << 5 | (24 + (nb == 1 ? 0 : nb == 2 ? 1 : nb == 4 ? 2 : 3)));
    for (int i = 0; i < nb; i++) tmp[1 + i] = (uint8_t)(v >> (8 * (nb - 1 - i)));
    l = 1 + (size_t)nb;
  }
  for (size_t i = 0; i < l; i++)
    if (o + i < cap) out[o + i] = tmp[i];
  return l;
}
static size_t enc(const rnode* t, uint8_t* out, size_t cap, size_t o, bool* bad) {
  size_t s = o;
  switch (t->kind) {
    case RK_UINT:
    case RK_NEGINT:
      o += ref_put_head(out, cap, o, t->kind == RK_UINT ? 0 : 1, t->val, t->width);
      break;
    case RK_BYTES:
    case RK_TEXT:
      o += ref_put_head(out, cap, o, t->kind == RK_BYTES ? 2 : 3, t->len, 0);
      for (size_t i = 0; i < t->len; i++)
        if (o + i < cap) out[o + i] = t->bytes[i];
      o += t->len;
      break;
    case RK_BYTES_INDEF:
    case RK_TEXT_INDEF:
      if (o < cap) out[o] = t->kind == RK_BYTES_INDEF ? 0x5f : 0x7f;
      o++;
      for (size_t i = 0; i < t->nkids; i++) o += enc(t->kids[i], out, cap, o, bad);
      if (o < cap) out[o] = 0xff;
      o++;
      break;
    case RK_ARRAY:
      o += ref_put_head(out, cap, o, 4, t->nkids, 0);
      for (size_t i = 0; i < t->nkids; i++) o += enc(t->kids[i], out, cap, o, bad);
      break;
    case RK_MAP:
      o += ref_put_head(out, cap, o, 5, t->nkids / 2, 0);
      for (size_t i = 0; i < t->nkids; i++) o += enc(t->kids[i], out, cap, o, bad);
      break;
    case RK_ARRAY_INDEF:
    case RK_MAP_INDEF:
      if (o < cap) out[o] = t->kind == RK_ARRAY_INDEF ? 0x9f : 0xbf;
      o++;
      for (size_t i = 0; i < t->nkids; i++) o += enc(t->kids[i], out, cap, o, bad);
      if (o < cap) out[o] = 0xff;
      o++;
      break;
    case RK_TAG:
      o += ref_put_head(out, cap, o, 6, t->val, 0);
      if (t->nkids != 1) {
        *bad = true;
        break;
      }
      o += enc(t->kids[0], out, cap, o, bad);
      break;
    case RK_SIMPLE:
      if (t->val >= 24 && t->val <= 31) *bad = true;
      o += ref_put_head(out, cap, o, 7, t->val, t->val <= 23 ? -1 : 8);
      break;
    case RK_FLOAT: {
      uint64_t bits;
      int w = t->width;
      if (w == 16) {
        uint16_t hb = 0x7e00;
        if (!t->isnan && !ref_single_to_half_exact((uint32_t)t->val, &hb)) {
          /* a half-width item holding a value no half represents: outside C03's domain; C07 still speaks of it (3 bytes, content up to the library) */
          if (ref_lossy_half_ok) ref_lossy_halves++; else *bad = true;
        }
        bits = hb;
      } else if (w == 32)
        bits = t->isnan ? 0x7fc00000u : t->val;
      else
        bits = t->isnan ? 0x7ff8000000000000ull : t->val;
      o += ref_put_head(out, cap, o, 7, bits, w);
      break;
    }
  }
  return o - s;
}
bool ref_lossy_half_ok;
unsigned ref_lossy_halves;
size_t ref_encode(const rnode* t, uint8_t* out, size_t cap) {
  bool bad = false;
  ref_lossy_halves = 0;
  size_t l = enc(t, out, cap, 0, &bad);
  return bad ? 0 : l;
}
size_t ref_encoded_size(const rnode* t) { return ref_encode(t, NULL, 0); }

/* ------------------------------------------------------------------ compare / render */
static const char* kname[] = {"uint", "negint", "bytes", "text", "bytes*", "text*", "array", "array*", "map", "map*", "tag", "simple", "float"};
bool ref_equal(const rnode* a, const rnode* b, int flags, vf_sb* why) {
  if (a->kind != b->kind) {
    if (why) vf_sb_printf(why, "kind %s vs %s", kname[a->kind], kname[b->kind]);
    return false;
  }
  if ((flags & RC_REFCOUNT1) && b->refcount != 1) {
    if (why) vf_sb_printf(why, "%s node has refcount %zu, expected 1", kname[b->kind], b->refcount);
    return false;
  }
  switch (a->kind) {
    case RK_UINT:
    case RK_NEGINT:
      if (a->width != b->width || a->val != b->val) {
        if (why) vf_sb_printf(why, "int w%d:%" PRIu64 " vs w%d:%" PRIu64, a->width, a->val, b->width, b->val);
        return false;
      }
      return true;
    case RK_SIMPLE:
      if (a->val != b->val) {
        if (why) vf_sb_printf(why, "simple %" PRIu64 " vs %" PRIu64, a->val, b->val);
        return false;
      }
      return true;
    case RK_FLOAT:
      if (a->width != b->width || a->isnan != b->isnan || (!a->isnan && a->val != b->val)) {
        if (why) vf_sb_printf(why, "float w%d nan=%d bits=%" PRIx64 " vs w%d nan=%d bits=%" PRIx64, a->width, a->isnan, a->val, b->width, b->isnan, b->val);
        return false;
      }
      return true;
    case RK_BYTES:
    case RK_TEXT:
      if (a->len != b->len || (a->len && memcmp(a->bytes, b->bytes, a->len))) {
        if (why) vf_sb_printf(why, "string content/length differs (%zu vs %zu)", a->len, b->len);
        return false;
      }
      if (a->kind == RK_TEXT && !(flags & RC_NO_CP) && a->cp != b->cp) {
        if (why) vf_sb_printf(why, "code point count %" PRId64 " vs %" PRId64, a->cp, b->cp);
        return false;
      }
      return true;
    case RK_TAG:
      if (a->val != b->val) {
        if (why) vf_sb_printf(why, "tag %" PRIu64 " vs %" PRIu64, a->val, b->val);
        return false;
      }
      break;
    case RK_ARRAY:
    case RK_MAP:
      if ((flags & RC_DEF_FULL) && b->allocated != (a->kind == RK_MAP ? b->nkids / 2 : b->nkids)) {
        if (why) vf_sb_printf(why, "definite %s holds %zu entries but capacity is %zu", kname[a->kind], a->kind == RK_MAP ? b->nkids / 2 : b->nkids, b->allocated);
        return false;
      }
      break;
    default:
      break;
  }
  if (a->nkids != b->nkids) {
    if (why) vf_sb_printf(why, "%s has %zu vs %zu children", kname[a->kind], a->nkids, b->nkids);
    return false;
  }
  for (size_t i = 0; i < a->nkids; i++)
    if (!ref_equal(a->kids[i], b->kids[i], flags, why)) {
      if (why) vf_sb_printf(why, " <- child %zu of %s", i, kname[a->kind]);
      return false;
    }
  return true;
}
void ref_render(const rnode* t, vf_sb* o) {
  switch (t->kind) {
    case RK_UINT: vf_sb_printf(o, "u%d:%" PRIu64, t->width, t->val); break;
    case RK_NEGINT: vf_sb_printf(o, "n%d:%" PRIu64, t->width, t->val); break;
    case RK_BYTES: vf_sb_printf(o, "h'"); vf_sb_hex(o, t->bytes, t->len > 32 ? 32 : t->len); vf_sb_printf(o, t->len > 32 ? "..'(%zu)" : "'", t->len); break;
    case RK_TEXT: vf_sb_printf(o, "t%" PRId64 "'", t->cp); vf_sb_hex(o, t->bytes, t->len > 32 ? 32 : t->len); vf_sb_printf(o, t->len > 32 ? "..'(%zu)" : "'", t->len); break;
    case RK_SIMPLE: vf_sb_printf(o, "simple(%" PRIu64 ")", t->val); break;
    case RK_FLOAT: if (t->isnan) vf_sb_printf(o, "f%d:nan", t->width); else vf_sb_printf(o, "f%d:%" PRIx64, t->width, t->val); break;
    case RK_TAG: vf_sb_printf(o, "%" PRIu64 "(", t->val); if (t->nkids) ref_render(t->kids[0], o); vf_sb_printf(o, ")"); break;
    default: {
      const char* op = t->kind == RK_ARRAY ? "[" : t->kind == RK_ARRAY_INDEF ? "[_ " : t->kind == RK_MAP ? "{" : t->kind == RK_MAP_INDEF ? "{_ " : "(_ ";
      const char* cl = (t->kind == RK_ARRAY || t->kind == RK_ARRAY_INDEF) ? "]" : (t->kind == RK_MAP || t->kind == RK_MAP_INDEF) ? "}" : ")";
      vf_sb_printf(o, "%s", op);
      for (size_t i = 0; i < t->nkids && i < 24; i++) {
        if (i) vf_sb_printf(o, (t->kind == RK_MAP || t->kind == RK_MAP_INDEF) && (i & 1) ? ":" : ",");
        ref_render(t->kids[i], o);
      }
      if (t->nkids > 24) vf_sb_printf(o, ",..(%zu)", t->nkids);
      vf_sb_printf(o, "%s", cl);
    }
  }
}
uint64_t ref_tree_hash(const rnode* t) {
  uint64_t h = vf_mix(t->kind, t->width);
  h = vf_mix(h, t->isnan ? 1 : t->val);
  if (t->kind == RK_BYTES || t->kind == RK_TEXT) h = vf_hash(t->bytes, t->len, h);
  for (size_t i = 0; i < t->nkids; i++) h = vf_mix(h, ref_tree_hash(t->kids[i]));
  return vf_mix(h, t->nkids);
}
