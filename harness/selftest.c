/* Self-test of the trusted base: the reference oracles are pinned to the RFC 8949 Appendix A
 * example table, to IEEE 754 conversions performed by the compiler (_Float16), and to the
 * well-formed-byte-sequence table of the Unicode standard / RFC 3629; the instrumenting
 * allocator is checked for its own protocol (so that a silent allocator bug cannot hide leaks). */
#include <inttypes.h>
#include <math.h>

#include "cbor.h"
#include "vf.h"
#include "vf_alloc.h"
#include "vf_enum.h"
#include "vf_ref.h"

/* stubs: the self-test does not use the runner */
int vf_tier, vf_replaying, vf_verbose;
double vf_deadline_left(void) { return 1e9; }
void vf_not_exhaustive(const char* why) { (void)why; }
uint64_t vf_seed;
size_t vf_hex(char* out, size_t cap, const void* p, size_t n) {
  static const char* d = "0123456789abcdef";
  const uint8_t* b = p;
  size_t o = 0;
  for (size_t i = 0; i < n && o + 2 < cap; i++) {
    out[o++] = d[b[i] >> 4];
    out[o++] = d[b[i] & 15];
  }
  out[o] = 0;
  return o;
}
static int hv(int c) { return c >= '0' && c <= '9' ? c - '0' : c >= 'a' && c <= 'f' ? c - 'a' + 10 : -1; }
size_t vf_unhex(uint8_t* out, size_t cap, const char* s) {
  size_t n = 0;
  while (s[0] && s[1] && hv(s[0]) >= 0 && hv(s[1]) >= 0 && n < cap) {
    out[n++] = (uint8_t)(hv(s[0]) * 16 + hv(s[1]));
    s += 2;
  }
  return n;
}
void vf_sb_reset(vf_sb* b) {
  b->n = 0;
  if (b->s) b->s[0] = 0;
}
void vf_sb_printf(vf_sb* b, const char* fmt, ...) {
  va_list a;
  va_start(a, fmt);
  int n = vsnprintf(NULL, 0, fmt, a);
  va_end(a);
  if (b->n + (size_t)n + 1 > b->cap) {
    b->cap = (b->n + (size_t)n + 1) * 2;
    b->s = realloc(b->s, b->cap);
  }
  va_start(a, fmt);
  vsnprintf(b->s + b->n, (size_t)n + 1, fmt, a);
  va_end(a);
  b->n += (size_t)n;
}
void vf_sb_hex(vf_sb* b, const void* p, size_t n) {
  char* t = malloc(2 * n + 1);
  vf_hex(t, 2 * n + 1, p, n);
  vf_sb_printf(b, "%s", t);
  free(t);
}

static int bad;
#define CHECK(c, ...)                      \
  do {                                     \
    if (!(c)) {                            \
      bad++;                               \
      fprintf(stderr, "selftest FAILED: "); \
      fprintf(stderr, __VA_ARGS__);        \
      fprintf(stderr, "\n");               \
    }                                      \
  } while (0)

/* RFC 8949 Appendix A: diagnostic value (in this harness' rendering) <-> encoding.
 * "canon" marks rows whose encoding is what C03's wording determines from the tree (all rows of
 * the table except where the RFC itself shows a non-preferred float width). */
static const struct { const char* hex; const char* render; int canon; } A[] = {
    {"00", "u8:0", 1}, {"01", "u8:1", 1}, {"0a", "u8:10", 1}, {"17", "u8:23", 1}, {"1818", "u8:24", 1}, {"1819", "u8:25", 1},
    {"1864", "u8:100", 1}, {"1903e8", "u16:1000", 1}, {"1a000f4240", "u32:1000000", 1}, {"1b000000e8d4a51000", "u64:1000000000000", 1},
    {"1bffffffffffffffff", "u64:18446744073709551615", 1}, {"3bffffffffffffffff", "n64:18446744073709551615", 1},
    {"20", "n8:0", 1}, {"29", "n8:9", 1}, {"3863", "n8:99", 1}, {"3903e7", "n16:999", 1},
    {"f90000", "f16:0", 1}, {"f98000", "f16:80000000", 1}, {"f93c00", "f16:3f800000", 1}, {"fb3ff199999999999a", "f64:3ff199999999999a", 1},
    {"f93e00", "f16:3fc00000", 1}, {"f97bff", "f16:477fe000", 1}, {"fa47c35000", "f32:47c35000", 1}, {"fa7f7fffff", "f32:7f7fffff", 1},
    {"fb7e37e43c8800759c", "f64:7e37e43c8800759c", 1}, {"f90001", "f16:33800000", 1}, {"f90400", "f16:38800000", 1}, {"f9c400", "f16:c0800000", 1},
    {"fbc010666666666666", "f64:c010666666666666", 1}, {"f97c00", "f16:7f800000", 1}, {"f97e00", "f16:nan", 1}, {"f9fc00", "f16:ff800000", 1},
    {"fa7f800000", "f32:7f800000", 1}, {"fa7fc00000", "f32:nan", 1}, {"faff800000", "f32:ff800000", 1}, {"fb7ff0000000000000", "f64:7ff0000000000000", 1},
    {"fb7ff8000000000000", "f64:nan", 1}, {"fbfff0000000000000", "f64:fff0000000000000", 1},
    {"f4", "simple(20)", 1}, {"f5", "simple(21)", 1}, {"f6", "simple(22)", 1}, {"f7", "simple(23)", 1},
    {"c074323031332d30332d32315432303a30343a30305a", "0(t20'323031332d30332d32315432303a30343a30305a')", 1}, {"c11a514b67b0", "1(u32:1363896240)", 1},
    {"c1fb41d452d9ec200000", "1(f64:41d452d9ec200000)", 1}, {"d74401020304", "23(h'01020304')", 1}, {"d818456449455446", "24(h'6449455446')", 1},
    {"d82076687474703a2f2f7777772e6578616d706c652e636f6d", "32(t22'687474703a2f2f7777772e6578616d706c652e636f6d')", 1},
    {"40", "h''", 1}, {"4401020304", "h'01020304'", 1}, {"60", "t0''", 1}, {"6161", "t1'61'", 1}, {"6449455446", "t4'49455446'", 1}, {"62225c", "t2'225c'", 1},
    {"62c3bc", "t1'c3bc'", 1}, {"63e6b0b4", "t1'e6b0b4'", 1}, {"64f0908591", "t1'f0908591'", 1},
    {"80", "[]", 1}, {"83010203", "[u8:1,u8:2,u8:3]", 1}, {"8301820203820405", "[u8:1,[u8:2,u8:3],[u8:4,u8:5]]", 1},
    {"98190102030405060708090a0b0c0d0e0f101112131415161718181819",
     "[u8:1,u8:2,u8:3,u8:4,u8:5,u8:6,u8:7,u8:8,u8:9,u8:10,u8:11,u8:12,u8:13,u8:14,u8:15,u8:16,u8:17,u8:18,u8:19,u8:20,u8:21,u8:22,u8:23,u8:24,..(25)]", 1},
    {"a0", "{}", 1}, {"a201020304", "{u8:1:u8:2,u8:3:u8:4}", 1}, {"a26161016162820203", "{t1'61':u8:1,t1'62':[u8:2,u8:3]}", 1},
    {"826161a161626163", "[t1'61',{t1'62':t1'63'}]", 1},
    {"5f42010243030405ff", "(_ h'0102',h'030405')", 1}, {"7f657374726561646d696e67ff", "(_ t5'7374726561',t4'6d696e67')", 1}, {"9fff", "[_ ]", 1},
    {"9f018202039f0405ffff", "[_ u8:1,[u8:2,u8:3],[_ u8:4,u8:5]]", 1}, {"9f01820203820405ff", "[_ u8:1,[u8:2,u8:3],[u8:4,u8:5]]", 1},
    {"83018202039f0405ff", "[u8:1,[u8:2,u8:3],[_ u8:4,u8:5]]", 1}, {"83019f0203ff820405", "[u8:1,[_ u8:2,u8:3],[u8:4,u8:5]]", 1},
    {"bf61610161629f0203ffff", "{_ t1'61':u8:1,t1'62':[_ u8:2,u8:3]}", 1}, {"826161bf61626163ff", "[t1'61',{_ t1'62':t1'63'}]", 1},
    {"bf6346756ef563416d7421ff", "{_ t3'46756e':simple(21),t3'416d74':n8:1}", 1},
    {NULL, NULL, 0}};

/* inputs that must be rejected, with the verdict(s) the properties' wording determines */
static const struct { const char* hex; int code; size_t pos; int code2; size_t pos2; } R[] = {
    {"", R_NODATA, 0, -1, 0}, {"f0", R_MALF, 0, -1, 0}, {"f8ff", R_MALF, 0, -1, 0}, {"1c", R_MALF, 0, -1, 0}, {"18", R_NEDATA, 0, -1, 0},
    {"8201", R_NEDATA, 2, -1, 0}, {"82011c", R_MALF, 2, -1, 0}, {"ff", R_SYN, 1, -1, 0}, {"81ff", R_SYN, 2, -1, 0}, {"bf01ff", R_SYN, 3, -1, 0},
    {"a101ff", R_SYN, 3, -1, 0}, {"c0ff", R_SYN, 2, -1, 0}, {"5f01", R_SYN, 2, -1, 0}, {"5f6161", R_SYN, 3, -1, 0}, {"7f4100", R_SYN, 3, -1, 0},
    {"5f8101", R_SYN, 3, R_SYN, 2}, {"5f81", R_NEDATA, 2, R_SYN, 2}, {"5f5fffff", R_SYN, 3, R_SYN, 2}, {"5fc1", R_NEDATA, 2, R_SYN, 2},
    {"5f811c", R_MALF, 2, R_SYN, 2}, {"9bffffffffffffffff", R_MEM, 9, -1, 0}, {"5b0000000000000005aa", R_NEDATA, 0, -1, 0}, {"6261", R_NEDATA, 0, -1, 0},
    {NULL, 0, 0, 0, 0}};

static const struct { const char* hex; int64_t count; } U[] = {
    {"", 0}, {"00", 1}, {"7f", 1}, {"80", -1}, {"bf", -1}, {"c0", -1}, {"c080", -1}, {"c1bf", -1}, {"c280", 1}, {"c2", -1}, {"c27f", -1}, {"c2c0", -1}, {"dfbf", 1},
    {"e08080", -1}, {"e09fbf", -1}, {"e0a080", 1}, {"e0a0", -1}, {"e1", -1}, {"ecbfbf", 1}, {"ed9fbf", 1}, {"eda080", -1}, {"edbfbf", -1}, {"ee8080", 1}, {"efbfbf", 1},
    {"f08fbfbf", -1}, {"f0908080", 1}, {"f0bfbfbf", 1}, {"f1808080", 1}, {"f3bfbfbf", 1}, {"f48fbfbf", 1}, {"f4908080", -1}, {"f5808080", -1}, {"f8888080", -1},
    {"fe", -1}, {"ff", -1}, {"f09080", -1}, {"f0908041", -1}, {"41c3a942", 3}, {"e282ac", 1}, {"e282", -1}, {"41e282ac42f09f988043", 5}, {"c3a9c3", -1},
    {"6180", -1}, {"61c2", -1}, {"e0a07f", -1}, {"f0907f80", -1}, {NULL, 0}};

int main(void) {
  uint8_t buf[256], out[256];
  vf_sb sb = {0};
  rdecode rd;
  /* error codes must be numerically those of the library */
  CHECK(R_NONE == CBOR_ERR_NONE && R_NEDATA == CBOR_ERR_NOTENOUGHDATA && R_NODATA == CBOR_ERR_NODATA && R_MALF == CBOR_ERR_MALFORMATED &&
            R_MEM == CBOR_ERR_MEMERROR && R_SYN == CBOR_ERR_SYNTAXERROR, "error code numbering differs from cbor_error_code");
  CHECK(sizeof(cbor_item_t*) == 8 && sizeof(struct cbor_pair) == 16, "request-size model of definite arrays/maps (8/16 bytes per entry) does not hold");
  int rows = 0;
  for (int i = 0; A[i].hex; i++, rows++) {
    size_t n = vf_unhex(buf, sizeof buf, A[i].hex);
    ref_arena_reset();
    ref_decode(buf, n, 2048, 1 << 30, NULL, &rd);
    CHECK(rd.ok && rd.read == n, "Appendix A row %s not accepted in full", A[i].hex);
    if (!rd.ok) continue;
    vf_sb_reset(&sb);
    ref_render(rd.tree, &sb);
    CHECK(strcmp(sb.s, A[i].render) == 0, "Appendix A row %s decodes to %s, expected %s", A[i].hex, sb.s, A[i].render);
    size_t m = ref_encode(rd.tree, out, sizeof out);
    if (A[i].canon) CHECK(m == n && memcmp(out, buf, n) == 0, "reference encoder does not reproduce Appendix A row %s", A[i].hex);
    /* every proper prefix is NOTENOUGHDATA */
    for (size_t c = 1; c < n; c++) {
      ref_arena_reset();
      ref_decode(buf, c, 2048, 1 << 30, NULL, &rd);
      CHECK(!rd.ok && rd.verd[0].code == R_NEDATA, "prefix %zu of %s not NOTENOUGHDATA", c, A[i].hex);
    }
  }
  for (int i = 0; R[i].hex; i++, rows++) {
    size_t n = vf_unhex(buf, sizeof buf, R[i].hex);
    ref_arena_reset();
    ref_decode(buf, n, 2048, 1 << 30, NULL, &rd);
    CHECK(!rd.ok, "%s must be rejected", R[i].hex);
    if (rd.ok) continue;
    CHECK(rd.verd[0].code == R[i].code && rd.verd[0].pos == R[i].pos, "%s: verdict %d@%zu, expected %d@%zu", R[i].hex, rd.verd[0].code, rd.verd[0].pos, R[i].code, R[i].pos);
    if (R[i].code2 >= 0)
      CHECK(rd.nverd == 2 && rd.verd[1].code == R[i].code2 && rd.verd[1].pos == R[i].pos2, "%s: second admissible verdict missing/wrong", R[i].hex);
    else
      CHECK(rd.nverd == 1, "%s: unexpected second verdict %d@%zu", R[i].hex, rd.verd[1].code, rd.verd[1].pos);
  }
  /* nesting limit of the reference */
  for (size_t L = 1; L <= 4; L++) {
    memset(buf, 0x81, L + 1);
    buf[L] = 0x00;
    ref_arena_reset();
    ref_decode(buf, L + 1, L, 1 << 30, NULL, &rd);
    CHECK(rd.ok && rd.max_depth == L, "depth %zu must be accepted at limit %zu", L, L);
    buf[L] = 0x81;
    buf[L + 1] = 0;
    ref_arena_reset();
    ref_decode(buf, L + 2, L, 1 << 30, NULL, &rd);
    CHECK(!rd.ok && rd.verd[0].code == R_MEM && rd.verd[0].pos == L + 1, "depth %zu must give MEMERROR just past head %zu at limit %zu", L + 1, L + 1, L);
  }
  /* UTF-8 */
  for (int i = 0; U[i].hex; i++, rows++) {
    size_t n = vf_unhex(buf, sizeof buf, U[i].hex);
    int64_t c = ref_utf8_count(buf, n);
    CHECK(c == U[i].count, "utf8 %s: count %" PRId64 ", expected %" PRId64, U[i].hex, c, U[i].count);
  }
  /* every scalar value U+0000..U+10FFFF except surrogates encodes to a sequence counted as 1; surrogates as invalid */
  for (uint32_t cp = 0; cp <= 0x10FFFF; cp++) {
    size_t n;
    if (cp < 0x80) { buf[0] = (uint8_t)cp; n = 1; }
    else if (cp < 0x800) { buf[0] = (uint8_t)(0xC0 | cp >> 6); buf[1] = (uint8_t)(0x80 | (cp & 63)); n = 2; }
    else if (cp < 0x10000) { buf[0] = (uint8_t)(0xE0 | cp >> 12); buf[1] = (uint8_t)(0x80 | ((cp >> 6) & 63)); buf[2] = (uint8_t)(0x80 | (cp & 63)); n = 3; }
    else { buf[0] = (uint8_t)(0xF0 | cp >> 18); buf[1] = (uint8_t)(0x80 | ((cp >> 12) & 63)); buf[2] = (uint8_t)(0x80 | ((cp >> 6) & 63)); buf[3] = (uint8_t)(0x80 | (cp & 63)); n = 4; }
    int64_t c = ref_utf8_count(buf, n);
    bool sur = cp >= 0xD800 && cp <= 0xDFFF;
    CHECK(c == (sur ? -1 : 1), "utf8 validator wrong on U+%04X", cp);
    if (bad > 20) break;
  }
  /* IEEE 754: all 65536 half patterns against the compiler's own conversion */
#ifdef __FLT16_MAX__
  for (uint32_t h = 0; h < 65536; h++) {
    uint16_t hb = (uint16_t)h;
    _Float16 f16;
    memcpy(&f16, &hb, 2);
    float f = (float)f16;
    uint32_t u;
    memcpy(&u, &f, 4);
    bool isn;
    uint32_t r = ref_half_to_single_bits(hb, &isn);
    if (isnan(f)) CHECK(isn, "half %04x should be NaN", h);
    else CHECK(!isn && r == u, "half %04x -> %08x, compiler says %08x", h, r, u);
    uint16_t back;
    if (!isnan(f)) CHECK(ref_single_to_half_exact(u, &back) && back == hb, "single %08x -> half %04x, expected %04x", u, back, h);
    if (bad > 20) break;
  }
  /* and the exactness predicate on a dense set of singles */
  for (uint64_t s = 0; s < (1ull << 32); s += 4099) {
    float f;
    uint32_t u = (uint32_t)s;
    memcpy(&f, &u, 4);
    if (isnan(f)) continue;
    _Float16 h = (_Float16)f;
    bool exact = (float)h == f && !(isinf((float)h) && !isinf(f));
    uint16_t hb, hb2;
    memcpy(&hb2, &h, 2);
    bool e2 = ref_single_to_half_exact(u, &hb);
    CHECK(e2 == exact && (!exact || hb == hb2), "single %08x exactness %d vs compiler %d", u, e2, exact);
    if (bad > 20) break;
  }
#else
  fprintf(stderr, "selftest: compiler lacks _Float16; IEEE cross-check skipped\n");
  bad++;
#endif
  /* allocator protocol */
  va_reset();
  void* p = va_malloc(10);
  void* z = va_malloc(0);
  CHECK(p && z && p != z && va.live == 2, "allocator: unique non-NULL blocks");
  p = va_realloc(p, 100);
  CHECK(p && va.live == 2 && va.requests == 3, "allocator: realloc counted once");
  va_free(p);
  va_free(z);
  va_free(NULL);
  CHECK(va.live == 0 && va.errors == 0 && va.free_null == 1, "allocator: clean release");
  int x;
  uint64_t fake[8] = {0};
  (void)x;
  va_free(&fake[7]);
  CHECK(va.errors == 1, "allocator: foreign pointer must be flagged");
  va_reset();
  va_schedule(VA_FAIL_ONE, 1, 0);
  void* a = va_malloc(1);
  void* b2 = va_malloc(1);
  void* c = va_malloc(1);
  CHECK(a && !b2 && c && va.refused == 1, "allocator: single-fault schedule");
  va_free(a);
  va_free(c);
  va_reset();
  CHECK(va_malloc((1ull << 30) + 1) == NULL && va.cap_refused == 1, "allocator: cap");
  /* token alphabet must be a prefix-free code of complete heads */
  vf_enum_init();
  for (size_t i = 0; i < VF_SIGMA.ntoks; i++) {
    rhead h;
    int r = ref_head(VF_SIGMA.toks[i].b, VF_SIGMA.toks[i].n, 0, &h);
    CHECK((r == RH_OK && h.full == VF_SIGMA.toks[i].n) || (r == RH_BAD && VF_SIGMA.toks[i].n == 1) || (r == RH_NEED && h.hl == VF_SIGMA.toks[i].n && h.hl == 9),
          "token %zu of Sigma is neither one complete head, one reserved byte, nor a complete 9-byte header with an unsatisfiable payload", i);
    for (size_t j = 0; j < VF_SIGMA.ntoks; j++)
      if (i != j) CHECK(!(VF_SIGMA.toks[i].n == VF_SIGMA.toks[j].n && !memcmp(VF_SIGMA.toks[i].b, VF_SIGMA.toks[j].b, VF_SIGMA.toks[i].n)), "duplicate token");
  }
  if (bad) {
    fprintf(stderr, "selftest: %d failures\n", bad);
    return 1;
  }
  printf("selftest: %d table rows, 1112064 scalars, 65536 half patterns, allocator protocol, alphabet: all passed\n", rows);
  return 0;
}
