/* Recording callback table for cbor_stream_decode: every slot counts invocations and captures
 * its arguments, so "exactly one callback, the right one, with exactly the decoded arguments"
 * is a checkable equality.  Also: expected event derived from the reference tokeniser. */
#ifndef VF_REC_H
#define VF_REC_H
#include "cbor.h"
#include "vf_ref.h"
enum {
  S_UINT8, S_UINT16, S_UINT32, S_UINT64, S_NEGINT8, S_NEGINT16, S_NEGINT32, S_NEGINT64,
  S_BYTES, S_BYTES_START, S_TEXT, S_TEXT_START, S_ARRAY, S_ARRAY_INDEF, S_MAP, S_MAP_INDEF, S_TAG,
  S_FLOAT2, S_FLOAT4, S_FLOAT8, S_UNDEF, S_NULL, S_BOOL, S_BREAK, S_NSLOTS
};
typedef struct {
  int slot;
  uint64_t val;        /* integer / count / tag / bool / float bits (binary32 for float2/float4, binary64 for float8; 0 for NaN) */
  bool isnan;
  const uint8_t* ptr;  /* strings */
  uint64_t len;
} vf_event;
typedef struct {
  unsigned ncalls;
  vf_event ev[4];
  unsigned per_slot[S_NSLOTS];
} vf_rec;
extern const struct cbor_callbacks vf_rec_callbacks; /* context = vf_rec* */
extern const char* vf_slot_name[S_NSLOTS];
static inline void vf_rec_reset(vf_rec* r) { memset(r, 0, sizeof *r); }
/* the event RFC 8949 determines for a complete head h located at b+p */
void vf_expected_event(const uint8_t* b, size_t p, const rhead* h, vf_event* e);
bool vf_event_equal(const vf_event* a, const vf_event* b);
void vf_event_render(const vf_event* e, const uint8_t* base, vf_sb* out);

/* ---- guard-page buffer: an input placed flush against a PROT_NONE page (over-read = SIGSEGV) */
#define VF_GUARD_MAX (2u << 20)
uint8_t* vf_guard_end(void);                       /* first inaccessible byte */
uint8_t* vf_guard_put(const void* src, size_t n);  /* copy n bytes so that they end at the guard */
/* ---- structured value sets (no random values): powers of two +-1, width boundaries +-1,
 * byte-distinct patterns, top-of-range values */
extern uint64_t VF_S64[512];
extern unsigned VF_NS64;
extern uint32_t VF_S32[256];
extern unsigned VF_NS32;
void vf_sets_init(void);
#endif
