#include "vf_enum.h"

static const char* SIGMA_HEX[] = {
    /* unsigned */ "00", "17", "1800", "1818", "18ff", "190100", "19ffff", "1a00010000", "1b0000000100000000",
    /* negative */ "20", "37", "38ff", "390100", "3a00010000", "3bffffffffffffffff",
    /* bytes */ "40", "41aa", "42aabb", "5801cc", "590001dd", "5f",
    /* heads whose declared payload can never be supplied (complete header, payload length near 2^64: header + length wraps) */
    "5bffffffffffffffff", "5bfffffffffffffff7", "7bfffffffffffffff8",
    /* text */ "60", "6161", "62c3a9", "61ff", "63e282ac", "780162", "7f",
    /* arrays */ "80", "81", "82", "9801", "990002", "9a00000001", "9bffffffffffffffff", "9f",
    /* maps */ "a0", "a1", "a2", "b801", "b90001", "bbffffffffffffffff", "bf",
    /* tags */ "c0", "d7", "d818", "d90100", "da00010000", "dbffffffffffffffff",
    /* simple / float */ "f4", "f5", "f6", "f7", "f93c00", "f97e01", "fa3f800000", "fa7fc00001", "fb3ff0000000000000", "fbfff0000000000001",
    /* subnormals of every width */ "f90001", "fa00000001", "fb800fffffffffffff",
    /* break */ "ff",
    /* reserved / unsupported initial bytes (single byte each: keeps the code prefix-free) */
    "1c", "3f", "5c", "7e", "9d", "be", "dc", "e0", "f3", "f8", "fc", NULL};
static const char* SIGMA1_HEX[] = {"00", "1818", "20", "41aa", "5f", "6161", "7f", "80", "81", "82", "9f", "a0", "a1", "a2", "bf",
                                   "c0", "d818", "f4", "f6", "f93c00", "ff", "1c", "f8", "9bffffffffffffffff", NULL};
static const char* SIGMA2_HEX[] = {"00", "40", "60", "5f", "7f", "81", "82", "9f", "a1", "bf", "c0", "ff", NULL};
static vf_tok T0[96], T1[32], T2[16];
static unsigned char in_sigma1[96];
vf_alphabet VF_SIGMA = {"Sigma", T0, 0};
vf_alphabet VF_SIGMA1 = {"Sigma'", T1, 0};
vf_alphabet VF_SIGMA2 = {"Sigma''", T2, 0};
static size_t fill(vf_tok* t, const char** hex) {
  size_t n = 0;
  for (; hex[n]; n++) t[n].n = (uint8_t)vf_unhex(t[n].b, sizeof t[n].b, hex[n]);
  return n;
}
void vf_enum_init(void) {
  VF_SIGMA.ntoks = fill(T0, SIGMA_HEX);
  VF_SIGMA1.ntoks = fill(T1, SIGMA1_HEX);
  VF_SIGMA2.ntoks = fill(T2, SIGMA2_HEX);
  for (size_t i = 0; i < VF_SIGMA.ntoks; i++)
    for (size_t j = 0; j < VF_SIGMA1.ntoks; j++)
      if (T0[i].n == T1[j].n && !memcmp(T0[i].b, T1[j].b, T0[i].n)) in_sigma1[i] = 1;
}

uint64_t vf_dfs_units(const vf_alphabet* a) { return (uint64_t)a->ntoks * a->ntoks; }

struct dfs {
  const vf_alphabet* a;
  unsigned k;
  size_t L;
  uint64_t cap;
  vf_seq_fn fn;
  void* ctx;
  uint8_t buf[12 * 16];
  size_t off[17];
};
static int classify(struct dfs* d, size_t ntok, rdecode* rd) {
  ref_arena_reset();
  ref_decode(d->buf, d->off[ntok], d->L, d->cap, NULL, rd);
  if (rd->ok) return VD_ACCEPT;
  /* in progress <=> the only verdict is "need more data" positioned exactly at the end */
  if (rd->nverd == 1 && rd->verd[0].code == R_NEDATA && rd->verd[0].pos == d->off[ntok]) return VD_INPROGRESS;
  /* a truncated token cannot occur: tokens are complete heads; eager/lazy pairs count as rejected */
  return VD_REJECT;
}
static unsigned long dfs_nodes;
static void rec(struct dfs* d, size_t ntok, size_t lasttok) {
  rdecode rd;
  if ((++dfs_nodes & 0x3ff) == 0 && vf_deadline_left() < 0) { /* global deadline: stop, and say so */
    vf_not_exhaustive("global deadline reached inside a DFS unit: the remaining subtree of that unit was not explored");
    d->k = 0;
  }
  if (d->k == 0) return;
  int st = classify(d, ntok, &rd);
  /* at the depth bound, sequences that are still open are reported only when their last head is in Sigma' (they all end in the
   * same verdict - need more data at the end - and differ only in which container was opened last) */
  if (st == VD_INPROGRESS && ntok >= d->k && d->a == &VF_SIGMA && !in_sigma1[lasttok]) return;
  vf_seq s = {d->buf, d->off[ntok], ntok, d->off, st, &rd};
  d->fn(&s, d->ctx);
  if (st != VD_INPROGRESS || ntok >= d->k) return;
  for (size_t t = 0; t < d->a->ntoks; t++) {
    memcpy(d->buf + d->off[ntok], d->a->toks[t].b, d->a->toks[t].n);
    d->off[ntok + 1] = d->off[ntok] + d->a->toks[t].n;
    rec(d, ntok + 1, t);
  }
}
void vf_dfs_unit(const vf_alphabet* a, unsigned k, uint64_t unit, size_t L, uint64_t cap, vf_seq_fn fn, void* ctx) {
  struct dfs d = {.a = a, .k = k, .L = L, .cap = cap, .fn = fn, .ctx = ctx};
  size_t t1 = unit / a->ntoks, t2 = unit % a->ntoks;
  if (k > 16) k = d.k = 16;
  d.off[0] = 0;
  memcpy(d.buf, a->toks[t1].b, a->toks[t1].n);
  d.off[1] = a->toks[t1].n;
  rdecode rd;
  int st = classify(&d, 1, &rd);
  if (t2 == 0) {
    vf_seq s = {d.buf, d.off[1], 1, d.off, st, &rd};
    fn(&s, ctx);
  }
  if (st != VD_INPROGRESS || k < 2) return;
  memcpy(d.buf + d.off[1], a->toks[t2].b, a->toks[t2].n);
  d.off[2] = d.off[1] + a->toks[t2].n;
  rec(&d, 2, t2);
}

/* B*(n): every byte string of length <= n none of whose proper prefixes is already decided (accepted, or rejected for good) by the
 * reference decoder; what is pruned is "decided prefix + arbitrary bytes", whose verdict cannot change (hard errors are final; bytes
 * after an accepted item are C14's subject) */
static void bstar_rec(uint8_t* b, size_t n, unsigned nmax, size_t L, uint64_t cap, vf_bytes_fn fn, void* ctx) {
  fn(b, n, ctx);
  if (n >= nmax) return;
  rdecode rd;
  ref_arena_reset();
  ref_decode(b, n, L, cap, NULL, &rd);
  bool open = false;
  if (!rd.ok)
    for (int i = 0; i < rd.nverd; i++)
      if (rd.verd[i].code == R_NEDATA) open = true;
  if (!open) return;
  if ((++dfs_nodes & 0x3ff) == 0 && vf_deadline_left() < 0) { vf_not_exhaustive("global deadline reached inside a B*(n) unit"); return; }
  for (unsigned v = 0; v < 256; v++) {
    b[n] = (uint8_t)v;
    bstar_rec(b, n + 1, nmax, L, cap, fn, ctx);
  }
}
void vf_bstar_unit(unsigned nmax, uint64_t unit, size_t L, uint64_t cap, vf_bytes_fn fn, void* ctx) {
  uint8_t b[16];
  if (nmax > 12) nmax = 12;
  if (unit == 65536) {
    fn(b, 0, ctx);
    for (unsigned a = 0; a < 256; a++) { b[0] = (uint8_t)a; fn(b, 1, ctx); }
    return;
  }
  b[0] = (uint8_t)(unit >> 8);
  b[1] = (uint8_t)unit;
  /* the two-byte string exists in B* only if its one-byte prefix is still open */
  rdecode rd;
  ref_arena_reset();
  ref_decode(b, 1, L, cap, NULL, &rd);
  bool open = false;
  if (!rd.ok)
    for (int i = 0; i < rd.nverd; i++)
      if (rd.verd[i].code == R_NEDATA) open = true;
  if (!open) return;
  bstar_rec(b, 2, nmax, L, cap, fn, ctx);
}
uint64_t vf_bn_units(void) { return 65537; }
void vf_bn_unit(unsigned nmax, uint64_t unit, vf_bytes_fn fn, void* ctx) {
  uint8_t b[8];
  if (unit == 65536) {
    fn(b, 0, ctx);
    if (nmax >= 1)
      for (unsigned a = 0; a < 256; a++) {
        b[0] = (uint8_t)a;
        fn(b, 1, ctx);
      }
    return;
  }
  if (nmax < 2) return;
  b[0] = (uint8_t)(unit >> 8);
  b[1] = (uint8_t)unit;
  fn(b, 2, ctx);
  if (nmax < 3) return;
  for (unsigned c = 0; c < 256; c++) {
    b[2] = (uint8_t)c;
    fn(b, 3, ctx);
    if (nmax >= 4)
      for (unsigned e = 0; e < 256; e++) {
        b[3] = (uint8_t)e;
        fn(b, 4, ctx);
      }
  }
}

void vf_neighbours(const vf_seq* s, vf_bytes_fn fn, void* ctx) {
  uint8_t m[12 * 16 + 4];
  /* (a) overwrite the initial byte of every head with every other value */
  for (size_t i = 0; i < s->ntok; i++) {
    memcpy(m, s->bytes, s->n);
    uint8_t orig = m[s->tok_off[i]];
    for (unsigned v = 0; v < 256; v++) {
      if (v == orig) continue;
      m[s->tok_off[i]] = (uint8_t)v;
      fn(m, s->n, ctx);
    }
  }
  /* (b) insert a break at every head boundary (including the end) */
  for (size_t i = 0; i <= s->ntok; i++) {
    size_t o = s->tok_off[i];
    memcpy(m, s->bytes, o);
    m[o] = 0xff;
    memcpy(m + o + 1, s->bytes + o, s->n - o);
    fn(m, s->n + 1, ctx);
  }
  /* (c) delete each head */
  for (size_t i = 0; i < s->ntok; i++) {
    size_t o = s->tok_off[i], e = s->tok_off[i + 1];
    memcpy(m, s->bytes, o);
    memcpy(m + o, s->bytes + e, s->n - e);
    fn(m, s->n - (e - o), ctx);
  }
  /* (d) every last argument/payload byte +1 and -1 (inflate / deflate lengths, counts, values) */
  for (size_t i = 0; i < s->ntok; i++) {
    size_t e = s->tok_off[i + 1];
    if (e - s->tok_off[i] < 2) continue;
    memcpy(m, s->bytes, s->n);
    m[e - 1]++;
    fn(m, s->n, ctx);
    m[e - 1] -= 2;
    fn(m, s->n, ctx);
  }
}
