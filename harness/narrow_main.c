/* Stand-alone program linked with the real library sources compiled at a narrow size_t (see vf_narrow.h).
 *   narrow pairs <job> <njobs> <full|structured>   all operand pairs of the overflow guards
 *   narrow growth                                   growth sites driven until the capacity computation must refuse
 *   narrow sersize                                  cbor_serialized_size over items whose true total crosses 2^w
 * Output: lines "CNT <name> <value>" and "FAIL <text>"; exit status 0 iff no FAIL. */
#include "cbor.h"
#include "cbor/internal/memory_utils.h"

typedef unsigned long long u64;
static const u64 MAXV = (vf_size_t)-1;
static int fails;
#define FAIL(...) do { if (fails++ < 20) { printf("FAIL "); printf(__VA_ARGS__); printf("\n"); } } while (0)

/* allocator stub: records the request exactly as the library passed it, backs it with real memory */
static u64 last_req, nreq, max_req;
static void* m(size_t n) { last_req = n; if (n > max_req) max_req = n; nreq++; return malloc(n ? n : 1); }
static void* r(void* p, size_t n) { last_req = n; if (n > max_req) max_req = n; nreq++; return realloc(p, n ? n : 1); }
static void f(void* p) { free(p); }

static u64 structured[4096];
static unsigned nstruct;
static void add(u64 v) { if (v <= MAXV) { for (unsigned i = 0; i < nstruct; i++) if (structured[i] == v) return; structured[nstruct++] = v; } }
static void mk_structured(void) {
  for (int k = 0; k < 16; k++) { add(1ull << k); add((1ull << k) + 1); add((1ull << k) - 1); add((1ull << k) + 2); add((1ull << k) - 2); add(3ull << k); }
  for (u64 j = 0; j <= 64; j++) { add(MAXV - j); add(j); }
  for (u64 v = 0; v <= MAXV; v += 251) add(v);
}
static void judge_pair(u64 a, u64 b, u64* pairs, u64* cons) {
  (*pairs)++;
  if ((*pairs & 0x3fffff) == 0) { printf("TICK\n"); fflush(stdout); } /* heartbeat for the parent's watchdog */
  bool s = _cbor_safe_to_multiply((size_t)a, (size_t)b);
  if (s && a * b > MAXV) FAIL("_cbor_safe_to_multiply(%llu, %llu) says safe but the product exceeds %llu", a, b, MAXV);
  else if (!s && a * b <= MAXV) (*cons)++;
  last_req = ~0ull;
  void* p = _cbor_alloc_multiple((size_t)a, (size_t)b);
  if (p) { if (last_req < a * b) FAIL("_cbor_alloc_multiple(%llu, %llu) obtained only %llu bytes", a, b, last_req); free(p); }
  else if (s) FAIL("_cbor_alloc_multiple(%llu, %llu) failed although the product fits and the allocator did not refuse", a, b);
  last_req = ~0ull;
  void* q0 = malloc(1);
  p = _cbor_realloc_multiple(q0, (size_t)a, (size_t)b);
  if (p) { if (last_req < a * b) FAIL("_cbor_realloc_multiple(%llu, %llu) obtained only %llu bytes", a, b, last_req); free(p); }
  else free(q0);
  bool sa = _cbor_safe_to_add((size_t)a, (size_t)b);
  if (sa != (a + b <= MAXV)) FAIL("_cbor_safe_to_add(%llu, %llu) = %d", a, b, sa);
  u64 g = _cbor_safe_signaling_add((size_t)a, (size_t)b);
  bool fits = a && b && a + b <= MAXV;
  if (!((fits && g == a + b) || (!fits && g == 0))) FAIL("_cbor_safe_signaling_add(%llu, %llu) = %llu", a, b, g);
}
static int do_pairs(u64 job, u64 njobs, bool full) {
  u64 pairs = 0, cons = 0;
  if (full) {
    for (u64 a = job; a <= MAXV; a += njobs)
      for (u64 b = 0; b <= MAXV; b++) judge_pair(a, b, &pairs, &cons);
  } else {
    mk_structured();
    /* every pair with at least one operand in the structured set */
    for (unsigned i = (unsigned)job; i < nstruct; i += (unsigned)njobs)
      for (u64 b = 0; b <= MAXV; b++) { judge_pair(structured[i], b, &pairs, &cons); judge_pair(b, structured[i], &pairs, &cons); }
  }
  printf("CNT pairs %llu\nCNT conservative_refusals %llu\n", pairs, cons);
  return fails != 0;
}
static u64 hdr(u64 v) { return v <= 23 ? 1 : v <= 0xff ? 2 : v <= 0xffff ? 3 : v <= 0xffffffffull ? 5 : 9; }

static int do_growth(void) {
  u64 steps = 0;
  /* indefinite array / map / chunked strings: insert until refused */
  for (int kind = 0; kind < 4; kind++) {
    cbor_item_t* c = kind == 0 ? cbor_new_indefinite_array() : kind == 1 ? cbor_new_indefinite_map() : kind == 2 ? cbor_new_indefinite_bytestring() : cbor_new_indefinite_string();
    cbor_item_t* x = kind == 2 ? cbor_build_bytestring((cbor_data) "a", 1) : kind == 3 ? cbor_build_string("a") : cbor_build_uint8(1);
    u64 lastcap = 0, esz = kind == 1 ? sizeof(struct cbor_pair) : sizeof(cbor_item_t*);
    for (u64 i = 0; i <= MAXV + 2; i++) {
      u64 before_req = nreq;
      bool ok = kind == 0 ? cbor_array_push(c, x) : kind == 1 ? cbor_map_add(c, (struct cbor_pair){.key = x, .value = x}) : kind == 2 ? cbor_bytestring_add_chunk(c, x) : cbor_string_add_chunk(c, x);
      u64 size = kind == 0 ? cbor_array_size(c) : kind == 1 ? cbor_map_size(c) : kind == 2 ? cbor_bytestring_chunk_count(c) : cbor_string_chunk_count(c);
      u64 cap = kind == 0 ? cbor_array_allocated(c) : kind == 1 ? cbor_map_allocated(c) : ((struct cbor_indefinite_string_data*)c->data)->chunk_capacity;
      steps++;
      if (cap < lastcap) FAIL("growth kind %d: capacity decreased from %llu to %llu", kind, lastcap, cap);
      if (size > cap) FAIL("growth kind %d: size %llu exceeds capacity %llu", kind, size, cap);
      if (ok && nreq != before_req && last_req < cap * esz) FAIL("growth kind %d: capacity %llu needs %llu bytes but only %llu were requested", kind, cap, cap * esz, last_req);
      if (ok && size != i + 1) FAIL("growth kind %d: size %llu after %llu insertions", kind, size, i + 1);
      lastcap = cap;
      if (!ok) {
        if (size != i) FAIL("growth kind %d: refused insertion changed the size", kind);
        /* (a refusal while the doubled size would still fit is the documented conservative guard, not a violation) */
        break;
      }
      if (i == MAXV + 2) FAIL("growth kind %d: never refused", kind);
    }
    cbor_decref(&c);
    cbor_decref(&x);
  }
  /* definite containers of every declared size */
  for (u64 n = 0; n <= MAXV; n++) {
    last_req = 0;
    cbor_item_t* a = cbor_new_definite_array((size_t)n);
    steps++;
    if (a) {
      if (last_req < n * sizeof(cbor_item_t*)) FAIL("cbor_new_definite_array(%llu) obtained %llu bytes for %llu needed", n, last_req, n * (u64)sizeof(cbor_item_t*));
      cbor_decref(&a);
    } else if (n * sizeof(cbor_item_t*) <= MAXV && n * sizeof(cbor_item_t*) * 2 <= MAXV) FAIL("cbor_new_definite_array(%llu) refused a product that clearly fits", n);
    last_req = 0;
    cbor_item_t* mp = cbor_new_definite_map((size_t)n);
    if (mp) {
      if (last_req < n * sizeof(struct cbor_pair)) FAIL("cbor_new_definite_map(%llu) obtained %llu bytes for %llu needed", n, last_req, n * (u64)sizeof(struct cbor_pair));
      cbor_decref(&mp);
    }
  }
  printf("CNT growth_steps %llu\n", steps);
  return fails != 0;
}
static int do_sersize(void) {
  u64 nser = 0, nbuild = 0;
  static unsigned char payload[70000];
  static const u64 LS8[] = {0, 1, 23, 24, 84, 100, 126, 127, 128, 130, 150, 170, 200, 230, 250, 252, 253, 254, 255};
  u64 n = 0;
  u64 lens[64];
  unsigned nl = 0;
  if (MAXV == 255) for (unsigned i = 0; i < sizeof LS8 / sizeof LS8[0]; i++) lens[nl++] = LS8[i];
  else { static const u64 LS16[] = {0, 23, 24, 255, 256, 21845, 30000, 32766, 33000, 40000, 43690, 65000, 65530, 65531, 65532, 65533, 65534, 65535}; for (unsigned i = 0; i < sizeof LS16 / sizeof LS16[0]; i++) lens[nl++] = LS16[i]; }
  /* single definite strings of every length (w=8) / boundary lengths (w=16) */
  for (u64 l = 0; l <= MAXV; l += (MAXV == 255 ? 1 : 257)) {
    for (int text = 0; text < 2; text++) {
      cbor_item_t* s = text ? cbor_new_definite_string() : cbor_new_definite_bytestring();
      unsigned char* h = malloc(l ? l : 1);
      memset(h, 'a', l);
      if (text) cbor_string_set_handle(s, h, (size_t)l); else cbor_bytestring_set_handle(s, h, (size_t)l);
      u64 want = hdr(l) + l, got = cbor_serialized_size(s);
      n++;
      if (!(got == want && want <= MAXV) && !(got == 0 && want > MAXV)) FAIL("cbor_serialized_size(%s of %llu bytes) = %llu, exact total %llu (max %llu)", text ? "text" : "bytes", l, got, want, MAXV);
      /* the serializer proper, into exactly sized heap buffers (ASan red zones): every buffer size at w = 8, the boundary sizes at w = 16.
       * Either the encoding fits and is written, or 0 - never a copy that proceeds on a wrapped "head + length" */
      for (u64 bs = 0; bs <= MAXV; bs++) {
        if (MAXV != 255 && !(bs <= 3 || bs + 2 >= want && bs <= want + 1 || bs + 2 >= MAXV || bs == l)) continue;
        unsigned char* out = malloc(bs ? bs : 1);
        memset(out, 0x5A, bs ? bs : 1);
        u64 w = cbor_serialize(s, out, (size_t)bs);
        nser++;
        u64 expect = (want <= MAXV && bs >= want) ? want : 0;
        if (w != expect) FAIL("cbor_serialize(%s of %llu bytes, buffer of %llu) = %llu, expected %llu", text ? "text" : "bytes", l, bs, w, expect);
        else if (w && (out[0] >> 5 != (text ? 3 : 2) || (l && (out[w - 1] != 'a' || out[hdr(l)] != 'a')))) FAIL("cbor_serialize(%s of %llu bytes, buffer of %llu) wrote wrong bytes", text ? "text" : "bytes", l, bs);
        free(out);
      }
      cbor_decref(&s);
      /* the copying constructors: a string of l bytes is either built on at least l bytes of storage, or refused */
      max_req = 0;
      cbor_item_t* b1 = text ? cbor_build_stringn((const char*)payload, (size_t)l) : cbor_build_bytestring(payload, (size_t)l);
      nbuild++;
      if (b1) {
        if (max_req < l) FAIL("%s(.., %llu) succeeded on a largest request of %llu bytes", text ? "cbor_build_stringn" : "cbor_build_bytestring", l, max_req);
        if ((text ? cbor_string_length(b1) : cbor_bytestring_length(b1)) != l) FAIL("%s(.., %llu) built a string of another length", text ? "cbor_build_stringn" : "cbor_build_bytestring", l);
        cbor_decref(&b1);
      }
    }
  }
  /* containers of up to 3 strings: every combination of the boundary lengths, in arrays (both flavours), maps, tags, chunked strings */
  for (unsigned i = 0; i < nl; i++)
    for (unsigned j = 0; j < nl; j++)
      for (unsigned k = 0; k < nl; k++)
        for (int shape = 0; shape < 8; shape++) {
          u64 L3[3] = {lens[i], lens[j], lens[k]};
          cbor_item_t* it[3];
          u64 sum = 0;
          for (int q = 0; q < 3; q++) { it[q] = cbor_build_bytestring(payload, (size_t)L3[q]); sum += hdr(L3[q]) + L3[q]; }
          cbor_item_t* c = NULL;
          u64 want = 0;
          switch (shape) {
            case 0: c = cbor_new_definite_array(3); for (int q = 0; q < 3; q++) (void)cbor_array_push(c, it[q]); want = 1 + sum; break;
            case 1: c = cbor_new_indefinite_array(); for (int q = 0; q < 3; q++) (void)cbor_array_push(c, it[q]); want = 2 + sum; break;
            case 2: c = cbor_new_indefinite_bytestring(); for (int q = 0; q < 3; q++) (void)cbor_bytestring_add_chunk(c, it[q]); want = 2 + sum; break;
            case 3: c = cbor_new_indefinite_map(); (void)cbor_map_add(c, (struct cbor_pair){.key = it[0], .value = it[1]}); want = 2 + sum - (hdr(L3[2]) + L3[2]); break;
            case 4: c = cbor_new_definite_map(1); (void)cbor_map_add(c, (struct cbor_pair){.key = it[1], .value = it[2]}); want = 1 + sum - (hdr(L3[0]) + L3[0]); break;
            case 6: c = cbor_new_definite_array(3); for (int q = 0; q < 3; q++) (void)cbor_array_push(c, it[0]); want = 1 + 3 * (hdr(L3[0]) + L3[0]); break; /* one item in three adjacent slots */
            case 7: c = cbor_new_indefinite_array(); for (int q = 0; q < 4; q++) (void)cbor_array_push(c, it[1]); want = 2 + 4 * (hdr(L3[1]) + L3[1]); break; /* ... in four */
            default: { cbor_item_t* a = cbor_new_definite_array(2); (void)cbor_array_push(a, it[0]); (void)cbor_array_push(a, it[2]); c = cbor_build_tag(MAXV, a); cbor_decref(&a); want = hdr(MAXV) + 1 + sum - (hdr(L3[1]) + L3[1]); }
          }
          u64 got = c ? cbor_serialized_size(c) : 0;
          n++;
          if (c && !(got == want && want <= MAXV) && !(got == 0 && want > MAXV)) FAIL("cbor_serialized_size(shape %d of strings %llu,%llu,%llu) = %llu, exact total %llu (max %llu)", shape, L3[0], L3[1], L3[2], got, want, MAXV);
          if (c) cbor_decref(&c);
          for (int q = 0; q < 3; q++) cbor_decref(&it[q]);
        }
  printf("CNT sersize_cases %llu\n", n);
  printf("CNT serialize_calls %llu\n", nser);
  printf("CNT build_calls %llu\n", nbuild);
  return fails != 0;
}
int main(int argc, char** argv) {
  cbor_set_allocs(m, r, f);
  if (sizeof(size_t) * 8 != VF_NARROW_BITS) { printf("FAIL narrow build has a %zu-bit size_t\n", (unsigned long)(sizeof(size_t) * 8)); return 1; }
  if (argc >= 5 && !strcmp(argv[1], "pairs")) return do_pairs(strtoull(argv[2], 0, 10), strtoull(argv[3], 0, 10), !strcmp(argv[4], "full"));
  if (argc >= 2 && !strcmp(argv[1], "growth")) return do_growth();
  if (argc >= 2 && !strcmp(argv[1], "sersize")) return do_sersize();
  printf("FAIL usage\n");
  return 2;
}
