/* E1 input-space explorer over cbor_load.  One source, three properties (compile with -DPROP=1|2|5):
 *   C01  memory safety / assertion freedom / termination of decode + client pipeline
 *   C02  accept <=> well-formed, faithful tree, exact `read`, no aliasing of the input
 *   C05  failures: NULL, nothing allocated, every field written, right code and position
 * Every enumerated input is run on the real library, in an exactly-sized heap block, in lock-step
 * with the reference decoder (vf_ref.c). */
#define _GNU_SOURCE
#include <inttypes.h>

#include "cbor.h"
#include "vf.h"
#include "vf_alloc.h"
#include "vf_enum.h"
#include "vf_ref.h"
#include "vf_walk.h"

#ifndef PROP
#error "compile with -DPROP=1, 2 or 5"
#endif
#ifndef VF_L
#define VF_L CBOR_MAX_STACK_SIZE
#endif

enum {
  K_ACCEPT = VC_USER, K_REJECT, K_NEDATA, K_NODATA, K_MALF, K_MEM, K_SYN, K_AMBIG, K_BN, K_SEQ, K_TRUNC, K_NEIGH,
  K_INPROGRESS, K_NODES, K_REFUSALS, K_STREAMCALLS, K_PIPELINES, K_TRUNC_SELF, K_CORPUS
};

static unsigned bn_max, dfs_k, neigh_k, trunc_k;
static uint64_t cap_bn, cap_dfs;
static uint64_t bn_units, dfs_units, dfs1_units, dfs2_units;
static unsigned dfs1_k, dfs2_k;
static vf_sb why, sb2;
static FILE* devnull;

static void on_state(uint64_t h) { vf_state(h); }

static const char* code_name(int c) {
  static const char* n[] = {"NONE", "NOTENOUGHDATA", "NODATA", "MALFORMATED", "MEMERROR", "SYNTAXERROR"};
  return c >= 0 && c <= 5 ? n[c] : "?";
}

static void null_cb_noop(void) {}

/* run one input through the implementation and judge it */
static void run_input(const uint8_t* b, size_t n, bool count_distinct) {
  vf_case(va_cap > (1u << 20) ? "load-corpus" : "load", b, n); /* the tag carries the allocator cap the case ran under */
  vf_cnt(VC_EVAL, 1);
  vf_cnt(VC_TRACES, 1);
  rdecode rd;
  ref_arena_reset();
  ref_decode(b, n, VF_L, va_cap, on_state, &rd);
  vf_cnt(VC_TRANS, rd.heads);

  uint8_t* in = malloc(n); /* exactly-sized: a one-byte over-read is a sanitizer report */
  if (n) memcpy(in, b, n);
  va_reset();
  struct cbor_load_result res;
  memset(&res, 0xAB, sizeof res);
  cbor_item_t* it = cbor_load(in, n, &res);
  bool it_was = it != NULL;
  if (va.refused) vf_cnt(K_REFUSALS, 1);
  vf_outcome(vf_mix(it ? 1 : 0, vf_mix(res.error.code, rd.ok)));

  if (it) {
    vf_cnt(K_ACCEPT, 1);
#if PROP == 2
    if (!rd.ok) {
      vf_fail(NULL, "cbor_load accepted an input the reference rejects (%s at %zu)", code_name(rd.verd[0].code), rd.verd[0].pos);
    } else {
      if (res.error.code != CBOR_ERR_NONE) vf_fail(NULL, "item returned together with error code %d", res.error.code);
      if (res.read != rd.read) vf_fail(NULL, "read = %zu, encoded length of the first item is %zu", res.read, rd.read);
      if (va.refused) vf_fail(NULL, "accepted although %" PRIu64 " allocation requests were refused", va.refused);
    }
#endif
#if PROP == 1
    if (res.error.code != CBOR_ERR_NONE) vf_fail(NULL, "third outcome: item AND error code %d", res.error.code);
    if (res.read == 0 || res.read > n) vf_fail(NULL, "read = %zu outside (0, %zu]", res.read, n);
#endif
    /* the input may be freed or overwritten at once: do so before anything touches the tree */
    if (n) memset(in, 0xEE, n);
    free(in);
    in = NULL;
#if PROP == 2
    if (rd.ok) {
      rnode* w = vf_walk(it);
      vf_cnt(K_NODES, vf_walk_nodes);
      vf_sb_reset(&why);
      if (!ref_equal(rd.tree, w, RC_REFCOUNT1 | RC_DEF_FULL, &why)) {
        vf_sb_reset(&sb2);
        ref_render(rd.tree, &sb2);
        vf_fail(NULL, "decoded tree differs from the tree the bytes denote: %s; reference tree %s", why.s, sb2.s);
      }
      if (count_distinct && vf_walk_nodes >= 2) vf_cnt(VC_DISTINCT, 1);
      /* serialize + size also read every buffer of the tree (use-after-free if it aliased the input) */
      size_t sz = cbor_serialized_size(it);
      unsigned char* o = malloc(sz + 1);
      size_t wr = cbor_serialize(it, o, sz);
      if (wr != sz || sz == 0) vf_fail(NULL, "serialize of accepted tree wrote %zu of %zu bytes", wr, sz);
      free(o);
    }
#endif
#if PROP == 1
    {
      vf_cnt(K_PIPELINES, 1);
      cbor_describe(it, devnull);
      size_t sz = cbor_serialized_size(it);
      unsigned char* o = malloc(sz);
      size_t wr = cbor_serialize(it, o, sz);
      if (wr != sz) vf_fail(NULL, "serialize wrote %zu, size said %zu", wr, sz);
      free(o);
      unsigned char* ab = NULL;
      size_t absz = 0;
      size_t aw = cbor_serialize_alloc(it, &ab, &absz);
      if (aw != sz || absz != sz || !ab) vf_fail(NULL, "serialize_alloc returned %zu/%zu, size said %zu", aw, absz, sz);
      if (ab) va_free(ab);
      cbor_item_t* cp = cbor_copy(it);
      if (!cp)
        vf_fail(NULL, "cbor_copy failed without any allocation refusal");
      else {
        cbor_describe(cp, devnull);
        cbor_decref(&cp);
        if (cp != NULL) vf_fail(NULL, "copy not released by a single decref");
      }
      if (count_distinct) vf_cnt(VC_DISTINCT, 1);
    }
#endif
    cbor_decref(&it);
    if (it != NULL) vf_fail(NULL, "accepted tree not released by the caller's single decref (a node is not solely owned)");
    if (va.live != 0) vf_fail(NULL, "%" PRIu64 " blocks still allocated after releasing the decoded tree", va.live);
  } else {
    vf_cnt(K_REJECT, 1);
    int code = (int)res.error.code;
    if (code >= 1 && code <= 5) vf_cnt(K_NEDATA + code - 1, 1);
#if PROP == 2
    if (rd.ok) vf_fail(NULL, "cbor_load rejected (%s at %zu) a well-formed item of %zu bytes", code_name(code), res.error.position, rd.read);
    else if (count_distinct && rd.verd[0].pos > 0) vf_cnt(VC_DISTINCT, 1);
#endif
#if PROP == 1
    if (code == CBOR_ERR_NONE || code > 5 || code < 0) vf_fail(NULL, "third outcome: NULL item with error code %d", code);
    if (va.live != 0) vf_fail(NULL, "%" PRIu64 " blocks leaked by a failed load", va.live);
    if (count_distinct) vf_cnt(VC_DISTINCT, 1);
#endif
#if PROP == 5
    if (!rd.ok) {
      struct cbor_load_result ab;
      memset(&ab, 0xAB, sizeof ab);
      if (rd.nverd == 2) vf_cnt(K_AMBIG, 1);
      if (count_distinct && rd.verd[0].pos > 0) vf_cnt(VC_DISTINCT, 1);
      if (va.live != 0) vf_fail(NULL, "%" PRIu64 " blocks left allocated by a failed load", va.live);
      if (memcmp(&res.error.code, &ab.error.code, sizeof res.error.code) == 0)
        vf_fail("unwritten-code", "error.code left unwritten");
      else if (memcmp(&res.error.position, &ab.error.position, sizeof res.error.position) == 0 ||
               memcmp(&res.read, &ab.read, sizeof res.read) == 0)
        vf_fail(n == 0 ? "empty-input-fields-unwritten" : NULL, "result fields left unwritten: position=%zx read=%zx (code %s)",
                res.error.position, res.read, code_name(code));
      else {
        bool okv = false;
        for (int i = 0; i < rd.nverd; i++)
          if (rd.verd[i].code == code && rd.verd[i].pos == res.error.position) okv = true;
        if (!okv) {
          vf_sb_reset(&why);
          for (int i = 0; i < rd.nverd; i++) vf_sb_printf(&why, "%s(%s at %zu)", i ? " or " : "", code_name(rd.verd[i].code), rd.verd[i].pos);
          vf_fail(NULL, "reported %s at %zu, reference admits %s", code_name(code), res.error.position, why.s);
        }
        if (res.read != res.error.position) vf_fail(NULL, "read = %zu but error position = %zu", res.read, res.error.position);
        /* (a predicted refusal need not reach the allocator: the library's own overflow guard may refuse first) */
        if (va.refused > 0 && !rd.predicted_refusal)
          vf_fail(NULL, "allocator refused %" PRIu64 " request(s) of at most %" PRIu64 " bytes but the reference did not predict a refusal", va.refused, va.max_request);
      }
    }
#endif
    if (va.live) va_release_all();
  }
  if (va.errors) vf_fail(NULL, "allocator protocol violated: %s", va.last_error);
  free(in);
  if (n >= 3 && (vf_cnt_get_local(VC_EVAL) & 0xfffff) == 77) {
    char hx[80];
    vf_hex(hx, sizeof hx, b, n);
    vf_sb_reset(&sb2);
    if (rd.ok) ref_render(rd.tree, &sb2); else vf_sb_printf(&sb2, "%s at %zu", code_name(rd.verd[0].code), rd.verd[0].pos);
    vf_sample("cbor_load(%s) -> %s, read=%zu, error=%s@%zu ; reference: %s", hx, it_was ? "item" : "NULL", res.read, code_name((int)res.error.code), res.error.position, sb2.s);
  }

#if PROP == 1
  /* the streaming decoder over the same bytes, in a consume loop, with the library's null callbacks */
  {
    uint8_t* in2 = malloc(n);
    if (n) memcpy(in2, b, n);
    size_t off = 0;
    unsigned guard = 0;
    while (off < n) {
      struct cbor_decoder_result r = cbor_stream_decode(in2 + off, n - off, &cbor_empty_callbacks, NULL);
      vf_cnt(K_STREAMCALLS, 1);
      if (r.status != CBOR_DECODER_FINISHED) break;
      if (r.read == 0 || r.read > n - off) {
        vf_fail(NULL, "stream decoder FINISHED with read=%zu at offset %zu of %zu (no progress / overrun)", r.read, off, n);
        break;
      }
      off += r.read;
      if (++guard > n + 2) {
        vf_fail(NULL, "stream loop did not terminate");
        break;
      }
    }
    free(in2);
  }
#endif
}

static void bn_cb(const uint8_t* b, size_t n, void* ctx) {
  (void)ctx;
  vf_cnt(K_BN, 1);
  run_input(b, n, true);
}
static void neigh_cb(const uint8_t* b, size_t n, void* ctx) {
  (void)ctx;
  vf_cnt(K_NEIGH, 1);
  run_input(b, n, false);
}
static void seq_cb(const vf_seq* s, void* ctx) {
  (void)ctx;
  vf_cnt(K_SEQ, 1);
  if (s->status == VD_INPROGRESS) vf_cnt(K_INPROGRESS, 1);
  /* copy: run_input re-runs the reference and recycles its arena */
  uint8_t buf[12 * 16];
  size_t off[18];
  memcpy(buf, s->bytes, s->n);
  memcpy(off, s->tok_off, (s->ntok + 1) * sizeof off[0]);
  vf_seq me = *s;
  me.bytes = buf;
  me.tok_off = off;
  int status = s->status;
  run_input(buf, me.n, me.n > bn_max);
  /* every byte-truncation inside the last head (shorter ones belong to the parent sequences) */
  for (size_t c = off[me.ntok - 1] + 1; c < me.n && me.ntok <= trunc_k; c++) {
    vf_cnt(K_TRUNC, 1);
    run_input(buf, c, false);
  }
#if PROP == 5
  /* self-check of the oracle on the clause "every proper prefix of an acceptable item gives
   * NOTENOUGHDATA at the first incomplete or missing head": for accepted sequences the reference
   * verdict of every cut must be exactly that */
  if (status == VD_ACCEPT) {
    for (size_t c = 1; c < me.n; c++) {
      size_t p = 0;
      for (size_t i = 0; i < me.ntok; i++)
        if (off[i] <= c) p = off[i];
      rdecode rd;
      ref_arena_reset();
      ref_decode(buf, c, VF_L, va_cap, NULL, &rd);
      vf_cnt(K_TRUNC_SELF, 1);
      if (rd.ok || rd.verd[0].code != R_NEDATA || rd.verd[0].pos != p || rd.nverd != 1)
        vf_fail(NULL, "oracle self-check: prefix of length %zu of an accepted item is not classified NOTENOUGHDATA at %zu", c, p);
    }
  }
#endif
  if (status != VD_INPROGRESS && me.ntok <= neigh_k) vf_neighbours(&me, neigh_cb, NULL);
}

static void corpus_unit(uint64_t i) {
  size_t n;
  const char* name;
  const uint8_t* b = vf_corpus_item(i, &n, &name);
  va_cap = 1ull << 30;
  vf_cnt(K_CORPUS, 1);
  run_input(b, n, true);
  /* truncations: every offset for small items; near the start, near the end and a stride for big ones */
  for (size_t c = 1; c < n; c++) {
    if (n > 700 && !(c < 48 || c + 48 > n || c % 997 == 0)) continue;
    vf_cnt(K_TRUNC, 1);
    run_input(b, c, false);
  }
  /* one trailing byte of each kind (C14-style independence is judged by C02 as 'first item only') */
  static uint8_t* ext;
  ext = realloc(ext, n + 1);
  memcpy(ext, b, n);
  ext[n] = 0xff;
  run_input(ext, n + 1, false);
  ext[n] = 0x1c;
  run_input(ext, n + 1, false);
}
static void unit(uint64_t u) {
  if (u >= bn_units + dfs_units + dfs1_units + dfs2_units) { corpus_unit(u - bn_units - dfs_units - dfs1_units - dfs2_units); return; }
  if (u < bn_units) {
    va_cap = cap_bn;
    if (getenv("VF_SKIP_BN")) return;
    if (vf_tier) vf_bstar_unit(bn_max, u, VF_L, va_cap, bn_cb, NULL); /* thorough: B*(4) - strings none of whose proper prefixes is decided */
    else vf_bn_unit(bn_max, u, bn_cb, NULL);
    return;
  }
  u -= bn_units;
  va_cap = cap_dfs;
  if (u < dfs_units) { vf_dfs_unit(&VF_SIGMA, dfs_k, u, VF_L, va_cap, seq_cb, NULL); return; }
  u -= dfs_units;
  /* deeper over smaller alphabets: Sigma' (one width per type + all structural heads), Sigma'' (structural heads only) */
  if (u < dfs1_units) { vf_dfs_unit(&VF_SIGMA1, dfs1_k, u, VF_L, va_cap, seq_cb, NULL); return; }
  u -= dfs1_units;
  vf_dfs_unit(&VF_SIGMA2, dfs2_k, u, VF_L, va_cap, seq_cb, NULL);
}
static uint64_t units(void) { return bn_units + dfs_units + dfs1_units + dfs2_units + vf_corpus_count(); }

static void init(void) {
  vf_enum_init();
  vf_corpus_init();
  va_install();
  devnull = fopen("/dev/null", "w");
  bn_max = vf_tier ? 4 : 3;
  dfs_k = 5;
  dfs1_k = vf_tier ? 7 : 6;
  dfs2_k = vf_tier ? 8 : 7;
  { /* a second build of this harness (MemorySanitizer) runs a smaller space: the bounds can be lowered from the environment */
    const char* e;
    if ((e = getenv("VF_DFS_K"))) dfs_k = (unsigned)atoi(e);
    if ((e = getenv("VF_DFS1_K"))) dfs1_k = (unsigned)atoi(e);
    if ((e = getenv("VF_DFS2_K"))) dfs2_k = (unsigned)atoi(e);
    if (getenv("VF_DFS_K") || getenv("VF_SKIP_BN")) vf_extra("reduced_space", "B(n) %s; DFS depths %u / %u / %u (set from the environment for this build)", getenv("VF_SKIP_BN") ? "skipped" : "kept", dfs_k, dfs1_k, dfs2_k);
  }
  neigh_k = vf_tier ? 4 : 3;
  trunc_k = vf_tier ? 5 : 4;
  cap_bn = 64 * 1024;
  cap_dfs = 64 * 1024; /* (a 1 GiB cap makes every 99 xx xx-style neighbour a half-megabyte allocation: measured 150 us per input, page-fault bound) */
  vf_extra("allocator_cap_bytes", "B(n): %llu, DFS: %llu", (unsigned long long)cap_bn, (unsigned long long)cap_dfs);
  bn_units = vf_bn_units();
  dfs_units = vf_dfs_units(&VF_SIGMA);
  dfs1_units = vf_dfs_units(&VF_SIGMA1);
  dfs2_units = vf_dfs_units(&VF_SIGMA2);
  vf_extra("alphabet", "%s: %zu heads (prefix-free: every token is a complete head incl. payload, or one reserved byte)", VF_SIGMA.name, VF_SIGMA.ntoks);
  vf_extra("nesting_limit_L", "%d", (int)VF_L);
  (void)null_cb_noop;
}

static void replay(const char* tag, const uint8_t* data, size_t len) {
  va_cap = strcmp(tag, "load-corpus") ? cap_dfs : 1ull << 30;
  vf_sb s = {0};
  rdecode rd;
  ref_arena_reset();
  ref_decode(data, len, VF_L, va_cap, NULL, &rd);
  if (rd.ok) {
    ref_render(rd.tree, &s);
    fprintf(stderr, "reference: accepts %zu bytes -> %s\n", rd.read, s.s);
  } else
    for (int i = 0; i < rd.nverd; i++) fprintf(stderr, "reference: rejects with %s at %zu\n", code_name(rd.verd[i].code), rd.verd[i].pos);
  run_input(data, len, false);
}

struct vf_check vf_the_check = {
#if PROP == 1
    .property = "C01",
    .level = "model_checking",
    .rule = "inputs = every byte string of length <= n (B(n)) + every head sequence of the pushdown DFS over Sigma (children of a sequence are explored only "
            "while the reference decoder is still waiting for input) + every byte-truncation inside the last head + single-edit neighbours; distinct_nontrivial = "
            "distinct inputs (B(n) strings, plus DFS sequences longer than n bytes; Sigma is a prefix-free code so sequences map injectively to byte strings) "
            "that the library either accepted and ran through the whole client pipeline, or rejected; states = distinct abstract decoder stack "
            "configurations visited by the reference pushdown, transitions = heads consumed",
#elif PROP == 2
    .property = "C02",
    .level = "model_checking",
    .rule = "same input space as C01 (B(n), pushdown DFS over Sigma, truncations, neighbours); distinct_nontrivial = distinct inputs that are accepted with a tree "
            "of >= 2 nodes, or rejected at an offset > 0 (B(n) strings, plus DFS sequences longer than n bytes; Sigma is prefix-free so the mapping is injective); "
            "states = distinct abstract stack configurations of the reference pushdown (kind stack x outstanding-children class x key/value parity), "
            "transitions = heads consumed; every explored input is executed on the implementation",
#else
    .property = "C05",
    .level = "model_checking",
    .rule = "same input space as C02; judged on every input both decoders reject; distinct_nontrivial = distinct rejected inputs whose first violation lies at an "
            "offset > 0 (B(n) strings, plus DFS sequences longer than n bytes); states/transitions as in C02",
#endif
    .bounds = {"B(3) complete (16 843 009 strings); pushdown DFS over Sigma to 5 heads, over Sigma' to 6 heads, over Sigma'' to 7 heads; in-head truncations of sequences of <= 4 heads; neighbours of decided "
               "sequences of <= 3 heads; boundary corpus with truncations",
               "B(3) complete and B*(4) (every 4-byte string whose 3-byte prefix is still undecided: 1 879 624 192 strings); pushdown DFS over Sigma to 5 heads, over Sigma' to 7 heads, over Sigma'' to 8 heads; all in-head truncations; neighbours of decided sequences of <= 4 heads; "
               "boundary corpus with truncations"},
    .assumptions = {"reference decoder vf_ref.c (RFC 8949 Appendix C + libcbor profile) is correct; it is pinned to RFC example tables by the setup self-test",
                    "harness allocator grants every request <= the stated cap and refuses larger ones; the reference predicts refusal from the exact request size of a definite array/map (8 resp. 16 bytes per declared entry)",
                    "library built from /repo's working tree with clang -O1 -g -DDEBUG=true -fsanitize=address,undefined -fno-sanitize-recover (CBOR_ASSERT live)",
                    "sanitizer instrumentation and glibc are trusted"},
    .counters = {[VC_EVAL] = "inputs_run_on_implementation", [VC_DISTINCT] = "distinct_nontrivial", [VC_TRANS] = "reference_heads_consumed",
                 [VC_TRACES] = "traces_on_implementation", [K_ACCEPT] = "accepted", [K_REJECT] = "rejected", [K_NEDATA] = "NOTENOUGHDATA",
                 [K_NODATA] = "NODATA", [K_MALF] = "MALFORMATED", [K_MEM] = "MEMERROR", [K_SYN] = "SYNTAXERROR", [K_AMBIG] = "eager_or_lazy_admitted",
                 [K_BN] = "bn_strings", [K_SEQ] = "dfs_sequences", [K_TRUNC] = "in_head_truncations", [K_NEIGH] = "neighbours",
                 [K_INPROGRESS] = "dfs_sequences_still_open", [K_NODES] = "tree_nodes_compared", [K_REFUSALS] = "inputs_with_refused_allocation",
                 [K_STREAMCALLS] = "stream_decoder_calls", [K_PIPELINES] = "client_pipelines_run", [K_TRUNC_SELF] = "oracle_selfcheck_prefixes", [K_CORPUS] = "boundary_corpus_items"},
    .init = init, .units = units, .unit = unit, .replay = replay, .state_bits = 20};
