/* C06 (explorer E3): allocation failure is reported cleanly, atomically and without leaks.
 * For each scenario the N allocator requests of the fault-free run are counted, then the scenario is re-run
 * under every single-refusal schedule (request k alone), every fail-stop schedule (k and all later) and, in
 * the thorough tier, every pair of refusals - an exhaustive, deviation-bounded enumeration of allocator answers. */
#define _GNU_SOURCE
#include <inttypes.h>

#include "cbor.h"
#include "vf.h"
#include "vf_alloc.h"
#include "vf_enum.h"
#include "vf_rec.h"
#include "vf_ref.h"
#include "vf_trees.h"
#include "vf_walk.h"

#define VF_L CBOR_MAX_STACK_SIZE
enum { K_SCEN = VC_USER, K_LOAD, K_COPY, K_SALLOC, K_BUILD, K_GROW, K_SINGLE, K_FAILSTOP, K_PAIR, K_REPORTED, K_ABSORBED, K_MAXN, K_DEEP, K_BAD_LOADS };
enum { SC_LOAD = 1, SC_COPY, SC_SALLOC, SC_BUILDER, SC_GROW };

static unsigned dfs_k, cdepth = 2;
static uint64_t dfs_units, con_units = 256, misc_units = 1;
static vf_sb sb;

/* schedules */
struct sched { int mode; uint64_t k, k2; };
static const char* mode_name(int m) { return m == VA_FAIL_ONE ? "refuse request k" : m == VA_FAIL_FROM ? "refuse request k and all later" : "refuse requests k and k2"; }

/* a scenario = something that can be set up, run under a schedule, and judged */
struct scen {
  int kind;
  const uint8_t* in;   /* SC_LOAD: input bytes */
  size_t n;
  const size_t* tok_off;
  size_t ntok;
  cbor_item_t* tree;   /* SC_COPY / SC_SALLOC: source tree (owned by the caller) */
  const uint8_t* origin; /* SC_COPY / SC_SALLOC: how to rebuild the tree (input bytes, or choice vector of the grammar) */
  size_t origin_len;
  int origin_ctree;
  int which;           /* SC_BUILDER / SC_GROW: table index */
  int step;            /* SC_GROW: elements already in the container */
  bool bad;            /* SC_LOAD: an input that is rejected (or incomplete) even without any refusal */
};
static int bad_code; /* error code of the fault-free run of the current bad input */
static size_t bad_k = 3;

/* ------------------------------------------------------------------ builders */
static const unsigned char PAY[4] = {1, 2, 3, 4};
#define B(expr) static cbor_item_t* b_##expr
static cbor_item_t* b0(void) { return cbor_new_int8(); }
static cbor_item_t* b1(void) { return cbor_new_int16(); }
static cbor_item_t* b2(void) { return cbor_new_int32(); }
static cbor_item_t* b3(void) { return cbor_new_int64(); }
static cbor_item_t* b4(void) { return cbor_build_uint8(7); }
static cbor_item_t* b5(void) { return cbor_build_uint16(7); }
static cbor_item_t* b6(void) { return cbor_build_uint32(7); }
static cbor_item_t* b7(void) { return cbor_build_uint64(7); }
static cbor_item_t* b8(void) { return cbor_build_negint8(7); }
static cbor_item_t* b9(void) { return cbor_build_negint16(7); }
static cbor_item_t* b10(void) { return cbor_build_negint32(7); }
static cbor_item_t* b11(void) { return cbor_build_negint64(7); }
static cbor_item_t* b12(void) { return cbor_new_definite_bytestring(); }
static cbor_item_t* b13(void) { return cbor_new_indefinite_bytestring(); }
static cbor_item_t* b14(void) { return cbor_build_bytestring(PAY, 4); }
static cbor_item_t* b15(void) { return cbor_new_definite_string(); }
static cbor_item_t* b16(void) { return cbor_new_indefinite_string(); }
static cbor_item_t* b17(void) { return cbor_build_string("abc"); }
static cbor_item_t* b18(void) { return cbor_build_stringn("abc", 2); }
static cbor_item_t* b19(void) { return cbor_new_definite_array(3); }
static cbor_item_t* b20(void) { return cbor_new_definite_array(0); }
static cbor_item_t* b21(void) { return cbor_new_indefinite_array(); }
static cbor_item_t* b22(void) { return cbor_new_definite_map(2); }
static cbor_item_t* b23(void) { return cbor_new_definite_map(0); }
static cbor_item_t* b24(void) { return cbor_new_indefinite_map(); }
static cbor_item_t* b25(void) { return cbor_new_tag(5); }
static cbor_item_t* b26(void) { return cbor_new_ctrl(); }
static cbor_item_t* b27(void) { return cbor_build_ctrl(20); }
static cbor_item_t* b28(void) { return cbor_build_bool(true); }
static cbor_item_t* b29(void) { return cbor_new_null(); }
static cbor_item_t* b30(void) { return cbor_new_undef(); }
static cbor_item_t* b31(void) { return cbor_new_float2(); }
static cbor_item_t* b32(void) { return cbor_new_float4(); }
static cbor_item_t* b33(void) { return cbor_new_float8(); }
static cbor_item_t* b34(void) { return cbor_build_float2(1.5f); }
static cbor_item_t* b35(void) { return cbor_build_float4(1.5f); }
static cbor_item_t* b36(void) { return cbor_build_float8(1.5); }
static struct { const char* name; cbor_item_t* (*fn)(void); } BUILDERS[] = {
    {"cbor_new_int8", b0}, {"cbor_new_int16", b1}, {"cbor_new_int32", b2}, {"cbor_new_int64", b3}, {"cbor_build_uint8", b4}, {"cbor_build_uint16", b5},
    {"cbor_build_uint32", b6}, {"cbor_build_uint64", b7}, {"cbor_build_negint8", b8}, {"cbor_build_negint16", b9}, {"cbor_build_negint32", b10},
    {"cbor_build_negint64", b11}, {"cbor_new_definite_bytestring", b12}, {"cbor_new_indefinite_bytestring", b13}, {"cbor_build_bytestring", b14},
    {"cbor_new_definite_string", b15}, {"cbor_new_indefinite_string", b16}, {"cbor_build_string", b17}, {"cbor_build_stringn", b18},
    {"cbor_new_definite_array(3)", b19}, {"cbor_new_definite_array(0)", b20}, {"cbor_new_indefinite_array", b21}, {"cbor_new_definite_map(2)", b22},
    {"cbor_new_definite_map(0)", b23}, {"cbor_new_indefinite_map", b24}, {"cbor_new_tag", b25}, {"cbor_new_ctrl", b26}, {"cbor_build_ctrl", b27},
    {"cbor_build_bool", b28}, {"cbor_new_null", b29}, {"cbor_new_undef", b30}, {"cbor_new_float2", b31}, {"cbor_new_float4", b32}, {"cbor_new_float8", b33},
    {"cbor_build_float2", b34}, {"cbor_build_float4", b35}, {"cbor_build_float8", b36}};
#define NBUILDERS (sizeof BUILDERS / sizeof BUILDERS[0])

/* ------------------------------------------------------------------ growth operations on containers */
enum { G_PUSH_INDEF, G_SET_APPEND_INDEF, G_PUSH_DEF, G_MAPADD_INDEF, G_MAPADD_DEF, G_BCHUNK, G_TCHUNK, G_BUILD_TAG, G_NGROW };
static const char* GROW_NAME[] = {"cbor_array_push(indefinite)", "cbor_array_set(indefinite, size, x)", "cbor_array_push(definite)", "cbor_map_add(indefinite)",
                                  "cbor_map_add(definite)", "cbor_bytestring_add_chunk", "cbor_string_add_chunk", "cbor_build_tag"};

static cbor_item_t* grow_container;
static cbor_item_t* grow_item;
static bool grow_result_ok; /* operation reported success */
static cbor_item_t* grow_tag;
static void grow_setup(int which, int step) {
  switch (which) {
    case G_PUSH_INDEF: case G_SET_APPEND_INDEF: grow_container = cbor_new_indefinite_array(); break;
    case G_PUSH_DEF: grow_container = cbor_new_definite_array((size_t)step + 1); break;
    case G_MAPADD_INDEF: grow_container = cbor_new_indefinite_map(); break;
    case G_MAPADD_DEF: grow_container = cbor_new_definite_map((size_t)step + 1); break;
    case G_BCHUNK: grow_container = cbor_new_indefinite_bytestring(); break;
    case G_TCHUNK: grow_container = cbor_new_indefinite_string(); break;
    default: grow_container = NULL;
  }
  grow_item = which == G_BCHUNK ? cbor_build_bytestring(PAY, 2) : which == G_TCHUNK ? cbor_build_string("xy") : cbor_build_uint8(42);
  for (int i = 0; i < step; i++) {
    bool ok = true;
    switch (which) {
      case G_PUSH_INDEF: case G_SET_APPEND_INDEF: case G_PUSH_DEF: ok = cbor_array_push(grow_container, grow_item); break;
      case G_MAPADD_INDEF: case G_MAPADD_DEF: ok = cbor_map_add(grow_container, (struct cbor_pair){.key = grow_item, .value = grow_item}); break;
      case G_BCHUNK: ok = cbor_bytestring_add_chunk(grow_container, grow_item); break;
      case G_TCHUNK: ok = cbor_string_add_chunk(grow_container, grow_item); break;
      default: break;
    }
    if (!ok) abort();
  }
}
static void grow_run(int which) {
  grow_tag = NULL;
  switch (which) {
    case G_PUSH_INDEF: case G_PUSH_DEF: grow_result_ok = cbor_array_push(grow_container, grow_item); break;
    case G_SET_APPEND_INDEF: grow_result_ok = cbor_array_set(grow_container, cbor_array_size(grow_container), grow_item); break;
    case G_MAPADD_INDEF: case G_MAPADD_DEF: grow_result_ok = cbor_map_add(grow_container, (struct cbor_pair){.key = grow_item, .value = grow_item}); break;
    case G_BCHUNK: grow_result_ok = cbor_bytestring_add_chunk(grow_container, grow_item); break;
    case G_TCHUNK: grow_result_ok = cbor_string_add_chunk(grow_container, grow_item); break;
    default: grow_tag = cbor_build_tag(9, grow_item); grow_result_ok = grow_tag != NULL;
  }
}
static void grow_teardown(void) {
  if (grow_tag) cbor_decref(&grow_tag);
  if (grow_container) cbor_decref(&grow_container);
  if (grow_item) cbor_decref(&grow_item);
}

/* ------------------------------------------------------------------ run one scenario under one schedule */
static void describe(const struct scen* s, const struct sched* sc) {
  uint8_t d[8 + 24 + 4200];
  size_t o = 0;
  uint32_t k32 = (uint32_t)s->kind, w = (uint32_t)s->which, st = (uint32_t)s->step, md = (uint32_t)sc->mode;
  memcpy(d + o, &k32, 4); o += 4;
  memcpy(d + o, &w, 4); o += 4;
  memcpy(d + o, &st, 4); o += 4;
  memcpy(d + o, &md, 4); o += 4;
  memcpy(d + o, &sc->k, 8); o += 8;
  memcpy(d + o, &sc->k2, 8); o += 8;
  if (s->kind == SC_LOAD) { size_t n = s->n > 4096 ? 4096 : s->n; memcpy(d + o, s->in, n); o += n; }
  if (s->kind == SC_COPY || s->kind == SC_SALLOC) { d[o++] = (uint8_t)s->origin_ctree; size_t n = s->origin_len > 4096 ? 4096 : s->origin_len; memcpy(d + o, s->origin, n); o += n; }
  vf_case(s->kind == SC_LOAD ? (s->bad ? "fault-loadbad" : "fault-load") : s->kind == SC_COPY ? "fault-copy" : s->kind == SC_SALLOC ? "fault-salloc" : s->kind == SC_BUILDER ? "fault-builder" : "fault-grow", d, o);
}

/* returns the number of allocator requests the run made; sc == NULL: fault-free counting run */
static uint64_t run_scenario(const struct scen* s, const struct sched* sc, uint64_t* req_per_tok) {
  static const struct sched none = {VA_NOFAULT, 0, 0};
  if (!sc) sc = &none;
  describe(s, sc);
  uint64_t requests = 0;
  bool faulted = false;
  switch (s->kind) {
    case SC_LOAD: {
      va_reset();
      va_schedule(sc->mode, sc->k, sc->k2);
      struct cbor_load_result res;
      memset(&res, 0xAB, sizeof res);
      uint8_t* in = vf_guard_put(s->in, s->n);
      cbor_item_t* it = cbor_load(in, s->n, &res);
      requests = va.requests;
      faulted = va.refused > 0;
      if (s->bad) {
        /* a load that fails anyway: under every refusal schedule it must still fail cleanly - NULL, the refusal or the defect of the input
         * reported, nothing left allocated */
        if (sc->mode == VA_NOFAULT) bad_code = it ? -1 : (int)res.error.code;
        if (it && bad_code != -1) vf_fail(NULL, "cbor_load accepts an input under a refusal schedule (%s, k=%" PRIu64 ") that it rejects without one", mode_name(sc->mode), sc->k);
        if (!it && faulted && res.error.code != CBOR_ERR_MEMERROR && (int)res.error.code != bad_code)
          vf_fail(NULL, "rejected input under a refusal schedule (%s, k=%" PRIu64 "): error code %d, neither MEMERROR nor the code %d of the run without refusals", mode_name(sc->mode), sc->k, res.error.code, bad_code);
        if (!it && va.live) vf_fail(NULL, "%" PRIu64 " blocks leaked by a failing load of a rejected input (%s, k=%" PRIu64 ", error code %d)", va.live, mode_name(sc->mode), sc->k, res.error.code);
      } else if (faulted) {
        vf_cnt(K_REPORTED, 1);
        if (it) vf_fail(NULL, "cbor_load returned an item although allocation request(s) were refused (%s, k=%" PRIu64 ")", mode_name(sc->mode), sc->k);
        else {
          if (res.error.code != CBOR_ERR_MEMERROR) vf_fail(NULL, "refused allocation reported as error code %d, not MEMERROR (%s, k=%" PRIu64 ")", res.error.code, mode_name(sc->mode), sc->k);
          /* position: just past the head during which request k was made */
          if (req_per_tok) {
            size_t j = 0;
            while (j < s->ntok && req_per_tok[j] <= sc->k) j++;
            size_t want = s->tok_off[j < s->ntok ? j + 1 : s->ntok];
            if (res.error.position != want || res.read != want)
              vf_fail(NULL, "MEMERROR position %zu / read %zu, the refused request (k=%" PRIu64 ") belongs to the head ending at %zu", res.error.position, res.read, sc->k, want);
          }
        }
        if (va.live) vf_fail(NULL, "%" PRIu64 " blocks leaked by a load that failed on a refused allocation (%s, k=%" PRIu64 ")", va.live, mode_name(sc->mode), sc->k);
      } else if (!it && sc->mode == VA_NOFAULT)
        ; /* caller only passes accepted inputs; nothing to judge */
      if (it) cbor_decref(&it);
      va_schedule(VA_NOFAULT, 0, 0);
      if (va.live) va_release_all();
      break;
    }
    case SC_COPY: {
      va_reset();
      uint64_t lim = va_serial(), img = va_image_hash_before(lim), live0 = va.live;
      va_schedule(sc->mode, sc->k, sc->k2);
      cbor_item_t* c = cbor_copy(s->tree);
      requests = va.requests;
      faulted = va.refused > 0;
      va_schedule(VA_NOFAULT, 0, 0);
      if (faulted) {
        vf_cnt(K_REPORTED, 1);
        if (c) vf_fail(NULL, "cbor_copy returned a tree although an allocation was refused (%s, k=%" PRIu64 ")", mode_name(sc->mode), sc->k);
        if (!c && va.live != live0) vf_fail(NULL, "failed cbor_copy leaked %" PRId64 " blocks (%s, k=%" PRIu64 ")", (int64_t)(va.live - live0), mode_name(sc->mode), sc->k);
      } else if (!c)
        vf_fail(NULL, "cbor_copy failed without a refused allocation");
      if (va_image_hash_before(lim) != img) vf_fail(NULL, "cbor_copy (%s, k=%" PRIu64 ") changed its source (contents or reference counts)", mode_name(sc->mode), sc->k);
      if (c) cbor_decref(&c);
      if (va.live != live0) {
        if (!faulted) vf_fail(NULL, "copy leaked");
      }
      break;
    }
    case SC_SALLOC: {
      va_reset();
      uint64_t lim = va_serial(), img = va_image_hash_before(lim), live0 = va.live;
      va_schedule(sc->mode, sc->k, sc->k2);
      unsigned char* buf = (unsigned char*)0x1;
      size_t bs = 777;
      size_t r = cbor_serialize_alloc(s->tree, &buf, &bs);
      requests = va.requests;
      faulted = va.refused > 0;
      va_schedule(VA_NOFAULT, 0, 0);
      if (faulted) {
        vf_cnt(K_REPORTED, 1);
        if (r != 0 || buf != NULL || bs != 0) vf_fail(NULL, "cbor_serialize_alloc with refused allocation returned %zu, buffer %p, size %zu (documented: 0, NULL, 0)", r, (void*)buf, bs);
      }
      if (buf && buf != (unsigned char*)0x1 && va_is_live(buf)) va_free(buf);
      if (va.live != live0) vf_fail(NULL, "cbor_serialize_alloc leaked %" PRId64 " blocks", (int64_t)(va.live - live0));
      if (va_image_hash_before(lim) != img) vf_fail(NULL, "cbor_serialize_alloc changed the item");
      break;
    }
    case SC_BUILDER: {
      va_reset();
      uint64_t live0 = va.live;
      va_schedule(sc->mode, sc->k, sc->k2);
      cbor_item_t* it = BUILDERS[s->which].fn();
      requests = va.requests;
      faulted = va.refused > 0;
      va_schedule(VA_NOFAULT, 0, 0);
      if (faulted) {
        vf_cnt(K_REPORTED, 1);
        if (it) vf_fail(NULL, "%s returned an item although an allocation was refused", BUILDERS[s->which].name);
        else if (va.live != live0) vf_fail(NULL, "%s leaked %" PRId64 " blocks on failure", BUILDERS[s->which].name, (int64_t)(va.live - live0));
      } else if (!it)
        vf_fail(NULL, "%s failed without a refused allocation", BUILDERS[s->which].name);
      if (it) {
        /* builders that leave the handle unset: give a definite string an (empty) handle so that release is defined */
        cbor_decref(&it);
      }
      break;
    }
    default: { /* SC_GROW */
      va_reset();
      grow_setup(s->which, s->step);
      uint64_t lim = va_serial(), img = va_image_hash_before(lim), live0 = va.live, req0 = va.requests;
      va_schedule(sc->mode, sc->k + req0, sc->k2 + req0); /* schedule indices are relative to the operation */
      grow_run(s->which);
      requests = va.requests - req0;
      faulted = va.refused > 0;
      va_schedule(VA_NOFAULT, 0, 0);
      if (faulted) {
        vf_cnt(K_REPORTED, 1);
        if (grow_result_ok) vf_fail(NULL, "%s at size %d reported success although its allocation was refused", GROW_NAME[s->which], s->step);
        if (va.live != live0) vf_fail(NULL, "%s at size %d leaked %" PRId64 " blocks on failure", GROW_NAME[s->which], s->step, (int64_t)(va.live - live0));
        if (va_image_hash_before(lim) != img) vf_fail(NULL, "%s at size %d failed but changed the container / item (contents, size or reference counts)", GROW_NAME[s->which], s->step);
      } else if (!grow_result_ok)
        vf_fail(NULL, "%s at size %d failed without a refused allocation", GROW_NAME[s->which], s->step);
      grow_teardown();
      if (va.live) {
        vf_fail(NULL, "%s: %" PRIu64 " blocks live after teardown", GROW_NAME[s->which], va.live);
        va_release_all();
      }
    }
  }
  if (va.errors) vf_fail(NULL, "allocator protocol violated: %s", va.last_error);
  if (!faulted && sc->mode != VA_NOFAULT) vf_cnt(K_ABSORBED, 1);
  return requests;
}

static void all_schedules(const struct scen* s, uint64_t* req_per_tok) {
  uint64_t N = run_scenario(s, NULL, NULL);
  vf_cnt(K_SCEN, 1);
  vf_cnt(VC_EVAL, 1);
  vf_cnt(VC_TRACES, 1);
  if (N > vf_cnt_get_local(K_MAXN)) vf_cnt(K_MAXN, N - vf_cnt_get_local(K_MAXN));
  vf_state(vf_mix((uint64_t)s->kind, N));
  if (N >= 3 && (vf_cnt_get_local(K_SCEN) & 0x3fff) == 11) {
    char hx[64] = "";
    if (s->kind == SC_LOAD) vf_hex(hx, sizeof hx, s->in, s->n < 24 ? s->n : 24);
    vf_sample("scenario kind %d %s%s: fault-free run makes %" PRIu64 " allocator requests -> %" PRIu64 " single-refusal + %" PRIu64 " fail-stop schedules", s->kind, s->kind == SC_LOAD ? "cbor_load of " : s->kind == SC_BUILDER ? BUILDERS[s->which].name : s->kind == SC_GROW ? GROW_NAME[s->which] : "(tree)", hx, N, N, N);
  }
  for (uint64_t k = 0; k < N; k++) {
    struct sched a = {VA_FAIL_ONE, k, 0}, b = {VA_FAIL_FROM, k, 0};
    run_scenario(s, &a, req_per_tok);
    run_scenario(s, &b, req_per_tok);
    vf_cnt(K_SINGLE, 1);
    vf_cnt(K_FAILSTOP, 1);
    vf_cnt(VC_EVAL, 2);
    vf_cnt(VC_TRACES, 2);
    vf_cnt(VC_TRANS, 2);
    vf_cnt(VC_DISTINCT, 2);
    if (vf_tier && !s->bad)
      for (uint64_t k2 = k + 1; k2 < N && k2 < k + 40; k2++) {
        struct sched p = {VA_FAIL_PAIR, k, k2};
        run_scenario(s, &p, req_per_tok);
        vf_cnt(K_PAIR, 1);
        vf_cnt(VC_EVAL, 1);
        vf_cnt(VC_TRACES, 1);
        vf_cnt(VC_TRANS, 1);
        vf_cnt(VC_DISTINCT, 1);
      }
  }
}

/* ------------------------------------------------------------------ scenario sources */
static void tree_scenarios(cbor_item_t* t, const uint8_t* origin, size_t olen, int ctree) {
  struct scen c = {.kind = SC_COPY, .tree = t, .origin = origin, .origin_len = olen, .origin_ctree = ctree},
              a = {.kind = SC_SALLOC, .tree = t, .origin = origin, .origin_len = olen, .origin_ctree = ctree};
  vf_cnt(K_COPY, 1);
  all_schedules(&c, NULL);
  vf_cnt(K_SALLOC, 1);
  all_schedules(&a, NULL);
}
static void seq_cb(const vf_seq* s, void* ctx) {
  (void)ctx;
  if (s->status != VD_ACCEPT) { /* rejected or still incomplete: every refusal schedule of the failing load */
    if (s->ntok > bad_k) return; /* both tiers: sequences of <= 3 heads of Sigma, <= 5 heads of Sigma' */
    uint8_t bb[12 * 16];
    memcpy(bb, s->bytes, s->n);
    struct scen Lb = {.kind = SC_LOAD, .in = bb, .n = s->n, .bad = true};
    vf_cnt(K_LOAD, 1);
    vf_cnt(K_BAD_LOADS, 1);
    all_schedules(&Lb, NULL);
    return;
  }
  uint8_t buf[12 * 16];
  size_t off[18];
  memcpy(buf, s->bytes, s->n);
  memcpy(off, s->tok_off, (s->ntok + 1) * sizeof off[0]);
  size_t ntok = s->ntok, n = s->n;
  /* requests made up to and including each head: fault-free loads of the head-prefixes */
  uint64_t rpt[18];
  for (size_t j = 0; j < ntok; j++) {
    struct scen p = {.kind = SC_LOAD, .in = buf, .n = off[j + 1], .tok_off = off, .ntok = j + 1};
    rpt[j] = run_scenario(&p, NULL, NULL);
  }
  struct scen L = {.kind = SC_LOAD, .in = buf, .n = n, .tok_off = off, .ntok = ntok};
  vf_cnt(K_LOAD, 1);
  all_schedules(&L, rpt);
  /* the decoded tree as source for copy / serialize_alloc */
  va_reset();
  struct cbor_load_result res;
  uint8_t* in = vf_guard_put(buf, n);
  cbor_item_t* t = cbor_load(in, n, &res);
  if (t) {
    tree_scenarios(t, buf, n, 0);
    cbor_decref(&t);
  }
  if (va.live) va_release_all();
}
static void constructed_unit(uint64_t u) {
  vt_choices ch;
  memset(&ch, 0, sizeof ch);
  unsigned want[3] = {(unsigned)(u / 128), (unsigned)(u / 16 % 8), (unsigned)(u % 16)};
  for (int i = 0; i < 3; i++) ch.c[i] = (uint8_t)want[i];
  ch.fixed = 3;
  va_reset();
  cbor_item_t* t = vt_build(&ch, (int)cdepth);
  bool valid = true;
  for (unsigned i = 0; i < 3; i++)
    if (i < ch.n ? want[i] >= ch.arity[i] : want[i] != 0) valid = false;
  if (!valid) {
    if (t) cbor_decref(&t);
    va_release_all();
    return;
  }
  uint64_t ord = 0;
  for (;;) {
    /* the constructed space is large: every tree in the thorough tier, every 16th (by ordinal) in the quick tier */
    if (t && (vf_tier || ord % 16 == 0)) tree_scenarios(t, ch.c, VT_MAXCHOICES, 1);
    if (t) cbor_decref(&t);
    if (va.live) va_release_all();
    ord++;
    if (!vt_next(&ch)) break;
    va_reset();
    t = vt_build(&ch, (int)cdepth);
  }
}
/* deep nesting: 255 / 256 / 257 / 300 open containers (one more than an 8-bit counter holds) of each kind, every single-refusal and
 * fail-stop schedule of the load, of the copy and of serialize_alloc of the decoded tree */
static void deep_unit(uint64_t u) {
  static const unsigned DEPTH[] = {255, 256, 257, 300};
  unsigned depth = DEPTH[u % 4], kind = (unsigned)(u / 4);
  static uint8_t in[2048];
  size_t n = 0;
  for (unsigned i = 0; i < depth; i++) {
    switch (kind) {
      case 0: in[n++] = 0x81; break;
      case 1: in[n++] = 0xc1; break;
      case 2: in[n++] = 0x9f; break;
      case 3: in[n++] = 0xa1; in[n++] = 0x00; break;
      default: in[n++] = i % 3 == 0 ? 0x81 : i % 3 == 1 ? 0xd8 : 0xbf; if (i % 3 == 1) in[n++] = 0x18; if (i % 3 == 2) in[n++] = 0x00; break;
    }
  }
  in[n++] = 0x00;
  for (unsigned i = depth; i-- > 0;)
    if (kind == 2 || (kind == 4 && i % 3 == 2)) in[n++] = 0xff;
  struct scen L = {.kind = SC_LOAD, .in = in, .n = n};
  vf_cnt(K_LOAD, 1);
  vf_cnt(K_DEEP, 1);
  all_schedules(&L, NULL);
  va_reset();
  struct cbor_load_result res;
  uint8_t* g = vf_guard_put(in, n);
  cbor_item_t* t = cbor_load(g, n, &res);
  if (!t) vf_fail(NULL, "deep input (%u levels, kind %u) rejected without any refusal (code %d at %zu)", depth, kind, res.error.code, res.error.position);
  else {
    tree_scenarios(t, in, n, 0);
    cbor_decref(&t);
  }
  if (va.live) va_release_all();
}
#define DEEP_UNITS 20
static void misc_unit(void) {
  for (unsigned i = 0; i < NBUILDERS; i++) {
    struct scen s = {.kind = SC_BUILDER, .which = (int)i};
    vf_cnt(K_BUILD, 1);
    all_schedules(&s, NULL);
  }
  /* container sizes 0..17 (every growth step up to 16), and the later growth steps 32 .. 4096 with their neighbours: a refused growth is refused at every size */
  static const int BIG[] = {31, 32, 33, 64, 127, 128, 129, 256, 512, 1024, 1025, 4096};
  for (int w = 0; w < G_NGROW; w++) {
    for (int step = 0; step <= 17; step++) {
      struct scen s = {.kind = SC_GROW, .which = w, .step = step};
      vf_cnt(K_GROW, 1);
      all_schedules(&s, NULL);
    }
    for (unsigned b = 0; b < sizeof BIG / sizeof BIG[0]; b++) {
      struct scen s = {.kind = SC_GROW, .which = w, .step = BIG[b]};
      vf_cnt(K_GROW, 1);
      all_schedules(&s, NULL);
    }
  }
}
/* boundary corpus items small enough for a complete schedule enumeration: growth steps inside load and copy */
static void corpus_unit(uint64_t i) {
  size_t n;
  const uint8_t* b = vf_corpus_item(i, &n, NULL);
  if (n > 700) return;
  va_cap = 1 << 20;
  struct scen L = {.kind = SC_LOAD, .in = b, .n = n};
  vf_cnt(K_LOAD, 1);
  all_schedules(&L, NULL);
  va_reset();
  struct cbor_load_result res;
  uint8_t* in = vf_guard_put(b, n);
  cbor_item_t* t = cbor_load(in, n, &res);
  if (t) {
    tree_scenarios(t, b, n > 200 ? 200 : n, 0);
    cbor_decref(&t);
  }
  if (va.live) va_release_all();
}
static uint64_t dfs1_units;
static void unit(uint64_t u) {
  va_cap = 1 << 20;
  if (u >= dfs_units + con_units + misc_units + vf_corpus_count() + dfs1_units) { deep_unit(u - (dfs_units + con_units + misc_units + vf_corpus_count() + dfs1_units)); return; }
  if (u >= dfs_units + con_units + misc_units + vf_corpus_count()) { /* deeper, over the structural alphabet Sigma' */
    bad_k = 5;
    vf_dfs_unit(&VF_SIGMA1, vf_tier ? 6 : 5, u - (dfs_units + con_units + misc_units + vf_corpus_count()), VF_L, 64 * 1024, seq_cb, NULL);
    return;
  }
  if (u >= dfs_units + con_units + misc_units) { corpus_unit(u - dfs_units - con_units - misc_units); return; }
  if (u < dfs_units) { bad_k = 3; vf_dfs_unit(&VF_SIGMA, dfs_k, u, VF_L, 64 * 1024, seq_cb, NULL); return; }
  u -= dfs_units;
  if (u < con_units) { constructed_unit(u); return; }
  u -= con_units;
  if (u < misc_units) misc_unit();
}
static uint64_t units(void) { return dfs_units + con_units + misc_units + vf_corpus_count() + dfs1_units + DEEP_UNITS; }
static void init(void) {
  vf_enum_init();
  vf_corpus_init();
  va_install();
  vf_guard_end();
  dfs_k = vf_tier ? 4 : 3;
  dfs_units = vf_dfs_units(&VF_SIGMA);
  dfs1_units = vf_dfs_units(&VF_SIGMA1);
}
static void replay(const char* tag, const uint8_t* d, size_t len) {
  if (len < 32) return;
  uint32_t kind, which, step, mode;
  uint64_t k, k2;
  memcpy(&kind, d, 4); memcpy(&which, d + 4, 4); memcpy(&step, d + 8, 4); memcpy(&mode, d + 12, 4); memcpy(&k, d + 16, 8); memcpy(&k2, d + 24, 8);
  struct sched sc = {(int)mode, k, k2};
  va_cap = 1 << 20;
  fprintf(stderr, "scenario %s, schedule: %s (k=%" PRIu64 ", k2=%" PRIu64 ")\n", tag, mode_name((int)mode), k, k2);
  if (kind == SC_LOAD) {
    struct scen s = {.kind = SC_LOAD, .in = d + 32, .n = len - 32, .bad = !strcmp(tag, "fault-loadbad")};
    if (s.bad) run_scenario(&s, NULL, NULL); /* the error code of the run without refusals is part of the oracle */
    run_scenario(&s, &sc, NULL);
  } else if (kind == SC_BUILDER && which < NBUILDERS) {
    struct scen s = {.kind = SC_BUILDER, .which = (int)which};
    run_scenario(&s, &sc, NULL);
  } else if (kind == SC_GROW) {
    struct scen s = {.kind = SC_GROW, .which = (int)which, .step = (int)step};
    run_scenario(&s, &sc, NULL);
  } else if ((kind == SC_COPY || kind == SC_SALLOC) && len > 33) {
    cbor_item_t* t = NULL;
    va_reset();
    if (d[32]) {
      vt_choices ch;
      memset(&ch, 0, sizeof ch);
      memcpy(ch.c, d + 33, len - 33 < VT_MAXCHOICES ? len - 33 : VT_MAXCHOICES);
      t = vt_build(&ch, (int)cdepth);
    } else {
      struct cbor_load_result res;
      t = cbor_load(d + 33, len - 33, &res);
    }
    if (t) {
      struct scen s = {.kind = (int)kind, .tree = t, .origin = d + 33, .origin_len = len - 33, .origin_ctree = d[32]};
      run_scenario(&s, &sc, NULL);
      cbor_decref(&t);
    }
  }
  (void)sb;
}
struct vf_check vf_the_check = {
    .property = "C06",
    .level = "fault_enumeration",
    .rule = "scenarios: cbor_load of every sequence of the pushdown DFS (accepted ones judged in full; rejected and incomplete ones must still fail cleanly - NULL, MEMERROR or their own error, nothing left allocated) over Sigma (3/4 heads) and over the structural alphabet Sigma' (5/6 heads), and of every boundary-corpus item of <= 700 bytes; cbor_copy and cbor_serialize_alloc of every tree those loads return and of the "
            "constructed-tree grammar (every tree in the thorough tier, every 16th in the quick tier); all 37 cbor_new_*/cbor_build_* builders; push / set-append / map add / add "
            "chunk / build_tag on containers holding 0..17 entries (crossing every growth step 0,1,2,4,8,16). For each scenario the N requests of the fault-free run are counted, "
            "then every single refusal k < N and every fail-stop suffix k < N is run (thorough: also every pair k < k2 < k+40). evaluations = runs; distinct_nontrivial = distinct "
            "(scenario, schedule) cells; states = distinct (scenario kind, N) classes",
    .bounds = {"DFS over Sigma to 3 heads and over Sigma' to 5 heads; all single-refusal and fail-stop schedules", "DFS over Sigma to 4 and Sigma' to 6 heads; single, fail-stop and pair schedules; whole constructed grammar"},
    .assumptions = {"a refusal is delivered iff the allocator's refused counter is non-zero; runs in which the schedule index is never reached are counted as absorbed, not judged",
                    "'unchanged' = identical byte image (address, size, contents) of every block that was live before the call, which includes reference counts",
                    "MEMERROR position oracle: request k belongs to head j iff the fault-free load of the first j heads makes more than k requests",
                    "ASan/UBSan build with live CBOR_ASSERT: a crash on a failure path is attributed to the (scenario, schedule) case"},
    .counters = {[VC_EVAL] = "runs", [VC_DISTINCT] = "distinct_scenario_schedule_cells", [VC_TRANS] = "faulted_runs", [VC_TRACES] = "executed_on_implementation",
                 [K_SCEN] = "scenarios", [K_LOAD] = "load_scenarios", [K_COPY] = "copy_scenarios", [K_SALLOC] = "serialize_alloc_scenarios", [K_BUILD] = "builder_scenarios",
                 [K_GROW] = "growth_scenarios", [K_SINGLE] = "single_refusal_schedules", [K_FAILSTOP] = "fail_stop_schedules", [K_PAIR] = "pair_schedules",
                 [K_REPORTED] = "runs_with_delivered_refusal", [K_ABSORBED] = "runs_where_schedule_was_not_reached", [K_MAXN] = "sum_over_workers_of_max_requests_per_scenario", [K_DEEP] = "deeply_nested_inputs", [K_BAD_LOADS] = "rejected_or_incomplete_inputs_loaded_under_every_schedule"},
    .init = init, .units = units, .unit = unit, .replay = replay};
