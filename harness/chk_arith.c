/* C20: size arithmetic never wraps.  Three exhaustive layers (no solver):
 *  (1) the REAL library sources compiled at an 8- and a 16-bit size_t (programs narrow8 / narrow16, see narrow_main.c):
 *      all 2^16 resp. 2^32 operand pairs of the overflow guards and allocation helpers, the growth sites driven until the
 *      capacity computation must refuse, cbor_serialized_size over items whose true total crosses 2^w;
 *  (2) at w = 64: the complete grid of 65 x 65 operand bit-length classes x 3 x 3 representatives against 128-bit arithmetic;
 *  (3) end to end at w = 64 through the public API with a size-recording, capping allocator. */
#define _GNU_SOURCE
#include <inttypes.h>

#include "cbor.h"
#include "cbor/internal/memory_utils.h"
#include "vf.h"
#include "vf_alloc.h"
#include "vf_rec.h"

enum { K_N8_PAIRS = VC_USER, K_N16_PAIRS, K_CONSERVATIVE, K_GROWTH, K_SERSIZE, K_GRID, K_E2E, K_E2E_REFUSED, K_E2E_GRANTED, K_NARROW_RUNS, K_SERIALIZE_SMALL, K_NARROW_SERIALIZE, K_NARROW_BUILD, K_BUILD_HUGE, K_SHARED_RUNS };
#define N16_JOBS 64
typedef unsigned __int128 u128;

static void run_narrow(const char* envname, const char* args, int cnt_pairs_slot) {
  const char* exe = getenv(envname);
  char cmd[1024], line[1024];
  uint8_t d[64];
  size_t dl = (size_t)snprintf((char*)d, sizeof d, "%s %s", envname, args);
  vf_case("narrow", d, dl);
  if (!exe) { vf_fail(NULL, "%s not set: the narrow-size_t program was not built", envname); return; }
  snprintf(cmd, sizeof cmd, "%s %s 2>&1", exe, args);
  FILE* p = popen(cmd, "r");
  if (!p) { vf_fail(NULL, "cannot run %s", cmd); return; }
  vf_cnt(K_NARROW_RUNS, 1);
  while (fgets(line, sizeof line, p)) {
    size_t L = strlen(line);
    while (L && line[L - 1] == '\n') line[--L] = 0;
    unsigned long long v;
    char name[64];
    vf_case("narrow", d, dl); /* heartbeat */
    if (!strcmp(line, "TICK")) continue;
    if (sscanf(line, "CNT %63s %llu", name, &v) == 2) {
      if (!strcmp(name, "pairs")) { vf_sample("%s %s: %llu operand pairs judged", envname, args, v); vf_cnt(cnt_pairs_slot, v); vf_cnt(VC_EVAL, v); vf_cnt(VC_DISTINCT, v); vf_cnt(VC_TRACES, v); }
      else if (!strcmp(name, "conservative_refusals")) vf_cnt(K_CONSERVATIVE, v);
      else if (!strcmp(name, "growth_steps")) { vf_cnt(K_GROWTH, v); vf_cnt(VC_EVAL, v); vf_cnt(VC_TRACES, v); }
      else if (!strcmp(name, "sersize_cases")) { vf_cnt(K_SERSIZE, v); vf_cnt(VC_EVAL, v); vf_cnt(VC_TRACES, v); }
      else if (!strcmp(name, "serialize_calls")) { vf_cnt(K_NARROW_SERIALIZE, v); vf_cnt(VC_EVAL, v); vf_cnt(VC_TRACES, v); }
      else if (!strcmp(name, "build_calls")) { vf_cnt(K_NARROW_BUILD, v); vf_cnt(VC_EVAL, v); vf_cnt(VC_TRACES, v); }
    } else if (!strncmp(line, "FAIL ", 5))
      vf_fail(NULL, "[%s %s] %s", envname, args, line + 5);
    else if (L)
      fprintf(stderr, "[%s] %s\n", envname, line);
  }
  int st = pclose(p);
  if (st != 0) vf_fail(NULL, "[%s %s] exited with status %d (sanitizer report or FAIL lines above)", envname, args, st);
}

/* (2) 65 x 65 bit-length classes x representatives, real 64-bit helpers vs 128-bit arithmetic */
static uint64_t last_req;
static void* rec_malloc(size_t n) { last_req = n; return (void*)16; }
static void* rec_realloc(void* p, size_t n) { (void)p; last_req = n; return (void*)16; }
static void rec_free(void* p) { (void)p; }
static void reps(int bits, uint64_t* out, int* n) { /* numbers whose highest set bit is `bits` (0 = the number 0) */
  *n = 0;
  if (bits == 0) { out[(*n)++] = 0; return; }
  uint64_t lo = 1ull << (bits - 1), hi = bits == 64 ? UINT64_MAX : (1ull << bits) - 1;
  out[(*n)++] = lo;
  if (lo + 1 <= hi && lo + 1 != lo) out[(*n)++] = lo + 1;
  if (hi != lo && hi != lo + 1) out[(*n)++] = hi;
}
static void grid_unit(void) {
  cbor_set_allocs(rec_malloc, rec_realloc, rec_free);
  for (int ba = 0; ba <= 64; ba++)
    for (int bb = 0; bb <= 64; bb++) {
      uint64_t A[3], Bv[3];
      int na, nb;
      reps(ba, A, &na);
      reps(bb, Bv, &nb);
      for (int i = 0; i < na; i++)
        for (int j = 0; j < nb; j++) {
          uint64_t a = A[i], b = Bv[j];
          uint64_t d[2] = {a, b};
          vf_case("grid64", d, 16);
          vf_cnt(K_GRID, 1);
          vf_cnt(VC_EVAL, 1);
          vf_cnt(VC_DISTINCT, 1);
          vf_cnt(VC_TRACES, 1);
          vf_state(vf_mix((uint64_t)ba, (uint64_t)bb));
          u128 prod = (u128)a * b, sum = (u128)a + b;
          bool s = _cbor_safe_to_multiply(a, b);
          if (s && prod > UINT64_MAX) vf_fail(NULL, "_cbor_safe_to_multiply(%#" PRIx64 ", %#" PRIx64 ") says safe but the product needs more than 64 bits", a, b);
          if (!s && prod <= UINT64_MAX) vf_cnt(K_CONSERVATIVE, 1);
          last_req = UINT64_MAX;
          void* p = _cbor_alloc_multiple(a, b);
          if (p && (u128)last_req < prod) vf_fail(NULL, "_cbor_alloc_multiple(%#" PRIx64 ", %#" PRIx64 ") requested only %#" PRIx64 " bytes", a, b, last_req);
          last_req = UINT64_MAX;
          p = _cbor_realloc_multiple((void*)16, a, b);
          if (p && (u128)last_req < prod) vf_fail(NULL, "_cbor_realloc_multiple(%#" PRIx64 ", %#" PRIx64 ") requested only %#" PRIx64 " bytes", a, b, last_req);
          if (_cbor_safe_to_add(a, b) != (sum <= UINT64_MAX)) vf_fail(NULL, "_cbor_safe_to_add(%#" PRIx64 ", %#" PRIx64 ") wrong", a, b);
          uint64_t g = _cbor_safe_signaling_add(a, b);
          bool fits = a && b && sum <= UINT64_MAX;
          if (!((fits && g == (uint64_t)sum) || (!fits && g == 0))) vf_fail(NULL, "_cbor_safe_signaling_add(%#" PRIx64 ", %#" PRIx64 ") = %#" PRIx64, a, b, g);
        }
    }
}
/* (3) end to end with the capping, size-recording allocator */
static void e2e_unit(void) {
  va_install();
  va_cap = 1ull << 20; /* requests up to 1 MiB are granted, larger ones refused and recorded */
  for (int k = 8; k <= 64; k++)
    for (int dlt = -1; dlt <= 1; dlt++) {
      uint64_t n = (k == 64 ? 0 : (1ull << k)) + (uint64_t)dlt; /* k = 64: 2^64 - 1, 0, 1 wrap on purpose: 0 and 1 are harmless repeats */
      uint64_t d[2] = {n, (uint64_t)k};
      vf_case("e2e", d, 16);
      for (int what = 0; what < 6; what++) {
        va_reset();
        vf_cnt(K_E2E, 1);
        vf_cnt(VC_EVAL, 1);
        vf_cnt(VC_TRACES, 1);
        u128 need = 0;
        bool succeeded = false;
        const char* name = "";
        uint8_t in[12];
        switch (what) {
          case 0: { name = "cbor_new_definite_array"; need = (u128)n * 8; cbor_item_t* a = cbor_new_definite_array(n); succeeded = a != NULL; if (a) cbor_decref(&a); break; }
          case 1: { name = "cbor_new_definite_map"; need = (u128)n * 16; cbor_item_t* a = cbor_new_definite_map(n); succeeded = a != NULL; if (a) cbor_decref(&a); break; }
          case 2: case 3: { /* decoder heads declaring that many entries */
            name = what == 2 ? "cbor_load(array head)" : "cbor_load(map head)";
            need = (u128)n * (what == 2 ? 8 : 16);
            in[0] = what == 2 ? 0x9b : 0xbb;
            for (int i = 0; i < 8; i++) in[1 + i] = (uint8_t)(n >> (8 * (7 - i)));
            in[9] = 0x00;
            struct cbor_load_result res;
            cbor_item_t* a = cbor_load(in, 10, &res);
            /* the load itself cannot complete (the elements are missing): what matters is the request made for the head */
            if (a) cbor_decref(&a);
            succeeded = va.refused == 0 && res.error.code != CBOR_ERR_MEMERROR;
            break;
          }
          case 4: { /* growth from a capacity the metadata claims: push must refuse before computing 2 * allocated */
            name = "cbor_array_push at claimed capacity";
            cbor_item_t* a = cbor_new_indefinite_array();
            cbor_item_t* x = cbor_build_uint8(1);
            (void)cbor_array_push(a, x);
            size_t real_alloc = a->metadata.array_metadata.allocated, real_end = a->metadata.array_metadata.end_ptr;
            a->metadata.array_metadata.allocated = n; /* client-visible struct: simulate an array that large */
            a->metadata.array_metadata.end_ptr = n;
            va_reset();
            bool ok = n ? cbor_array_push(a, x) : true;
            need = (u128)n * 2 * 8;
            succeeded = ok && n != 0;
            if (ok && n) { /* it believed it had room: must have obtained >= 2n*8 bytes */ }
            if (!ok && a->metadata.array_metadata.allocated != n) vf_fail(NULL, "refused push changed the capacity");
            if (ok && n && a->metadata.array_metadata.allocated < n) vf_fail(NULL, "growth computed a smaller capacity (%zu) than it had (%" PRIu64 ")", a->metadata.array_metadata.allocated, n);
            a->metadata.array_metadata.allocated = ok && n ? a->metadata.array_metadata.allocated : real_alloc;
            a->metadata.array_metadata.end_ptr = real_end; /* restore so that release only touches what exists */
            if (ok && n) a->metadata.array_metadata.end_ptr = real_end;
            cbor_decref(&a);
            cbor_decref(&x);
            va_release_all();
            break;
          }
          default: { /* serialized size of a definite string whose declared length is near SIZE_MAX, and the serializer itself on it */
            name = "cbor_serialized_size / cbor_serialize (string of declared length n)";
            for (unsigned j = 0; j < (k == 64 && dlt == -1 ? 25u : 1u); j++) /* at the very top: SIZE_MAX - j for j = 0..24 */
              for (int text = 0; text < 2; text++) {
                uint64_t nn = n - j;
                cbor_item_t* s = text ? cbor_new_definite_string() : cbor_new_definite_bytestring();
                /* client-visible struct: declare the length without providing the bytes - nothing below may touch them */
                if (text) s->metadata.string_metadata.length = nn; else s->metadata.bytestring_metadata.length = nn;
                uint64_t got = cbor_serialized_size(s);
                u128 want = (u128)nn + (nn <= 23 ? 1 : nn <= 0xff ? 2 : nn <= 0xffff ? 3 : nn <= 0xffffffffull ? 5 : 9);
                if (!((want <= UINT64_MAX && got == (uint64_t)want) || (want > UINT64_MAX && got == 0)))
                  vf_fail(NULL, "cbor_serialized_size of a %s string with declared length %#" PRIx64 " = %#" PRIx64 ", exact total is %s%#" PRIx64, text ? "text" : "byte", nn, got, want > UINT64_MAX ? "2^64+" : "", (uint64_t)want);
                /* the same item in 2, 3 and 4 slots of one array (a run of identical references): the total is the exact sum or 0 */
                for (unsigned run = 2; run <= 4; run++) {
                  cbor_item_t* arr = cbor_new_definite_array(run);
                  if (!arr) break;
                  for (unsigned q = 0; q < run; q++) (void)cbor_array_push(arr, s);
                  uint64_t g2 = cbor_serialized_size(arr);
                  u128 w2 = 1 + (u128)run * want;
                  vf_cnt(K_SHARED_RUNS, 1);
                  if (!((w2 <= UINT64_MAX && g2 == (uint64_t)w2) || (w2 > UINT64_MAX && g2 == 0)))
                    vf_fail(NULL, "cbor_serialized_size of an array holding one %s string of declared length %#" PRIx64 " in %u slots = %#" PRIx64 ", exact total is %s%#" PRIx64, text ? "text" : "byte", nn, run, g2,
                            w2 > UINT64_MAX ? "2^64+" : "", (uint64_t)w2);
                  cbor_decref(&arr);
                }
                /* a buffer the encoding cannot fit into: 0, and no byte of the (absent) payload is read or written */
                static const size_t BS[] = {0, 1, 5, 9, 10, 16, 64, 4096};
                for (unsigned b = 0; b < sizeof BS / sizeof BS[0]; b++) {
                  if (want <= BS[b]) continue;
                  uint8_t* o = vf_guard_end() - BS[b];
                  size_t w = cbor_serialize(s, o, BS[b]);
                  vf_cnt(K_SERIALIZE_SMALL, 1);
                  if (w != 0) vf_fail(NULL, "cbor_serialize of a %s string with declared length %#" PRIx64 " into %zu bytes returned %zu", text ? "text" : "byte", nn, BS[b], w);
                }
                if (text) s->metadata.string_metadata.length = 0; else s->metadata.bytestring_metadata.length = 0;
                cbor_decref(&s);
              }
            /* the copying constructors with the same lengths: granted only on at least that many bytes (the 1 MiB cap refuses the huge ones
             * - unless the request the library computed is not the length any more) */
            for (unsigned j = 0; j < (k == 64 && dlt == -1 ? 25u : 1u); j++)
              for (int text = 0; text < 2; text++) {
                uint64_t nn = n - j;
                static unsigned char src[(1 << 20) + 64];
                va_reset();
                cbor_item_t* b1 = text ? cbor_build_stringn((const char*)src, nn) : cbor_build_bytestring(src, nn);
                vf_cnt(K_BUILD_HUGE, 1);
                if (b1) {
                  if (va.max_request < nn) vf_fail(NULL, "%s with length %#" PRIx64 " succeeded although the largest request was %#" PRIx64 " bytes", text ? "cbor_build_stringn" : "cbor_build_bytestring", nn, va.max_request);
                  cbor_decref(&b1);
                }
                if (va.live) va_release_all();
              }
            need = 0;
            succeeded = false;
          }
        }
        /* every request the allocator saw for the sized part must be >= the mathematical need, or the call failed */
        if (succeeded && what != 5) {
          vf_cnt(K_E2E_GRANTED, 1);
          if ((u128)va.max_request < need) vf_fail(NULL, "%s with n = %#" PRIx64 " succeeded but the largest request was %#" PRIx64 " bytes, %s%#" PRIx64 " are needed", name, n, va.max_request, need > UINT64_MAX ? "2^64+" : "", (uint64_t)need);
        } else
          vf_cnt(K_E2E_REFUSED, 1);
        if (va.live) va_release_all();
      }
    }
}
static bool have16_full;
static void unit(uint64_t u) {
  char a[64];
  if (u == 0) { run_narrow("VF_NARROW8", "pairs 0 1 full", K_N8_PAIRS); return; }
  if (u == 1) { run_narrow("VF_NARROW8", "growth", 0); run_narrow("VF_NARROW8", "sersize", 0); return; }
  if (u == 2) { run_narrow("VF_NARROW16", "growth", 0); run_narrow("VF_NARROW16", "sersize", 0); return; }
  if (u == 3) { grid_unit(); return; }
  if (u == 4) { e2e_unit(); return; }
  snprintf(a, sizeof a, "pairs %u %d %s", (unsigned)(u - 5), N16_JOBS, have16_full ? "full" : "structured");
  run_narrow("VF_NARROW16", a, K_N16_PAIRS);
}
static uint64_t units(void) { return 5 + N16_JOBS; }
static void init(void) { have16_full = vf_tier != 0; }
static void replay(const char* tag, const uint8_t* d, size_t len) {
  if (!strcmp(tag, "narrow")) {
    char s[80];
    snprintf(s, sizeof s, "%.*s", (int)len, (const char*)d);
    char* sp = strchr(s, ' ');
    if (sp) { *sp = 0; run_narrow(s, sp + 1, K_N8_PAIRS); }
  } else if (!strcmp(tag, "grid64")) grid_unit();
  else e2e_unit();
}
struct vf_check vf_the_check = {
    .property = "C20",
    .level = "exploration",
    .rule = "(1) real sources at size_t = uint8_t: all 65 536 operand pairs of _cbor_safe_to_multiply / _cbor_safe_to_add / _cbor_safe_signaling_add / _cbor_alloc_multiple / _cbor_realloc_multiple; at "
            "size_t = uint16_t: all 2^32 pairs (thorough) / every pair with an operand in a 300-value structured set (quick); growth of indefinite arrays, maps and chunk tables until refusal and every "
            "definite container size at both widths; cbor_serialized_size of every string length (w=8) and of 6 container shapes x all triples of boundary lengths; (2) w = 64: all 65 x 65 bit-length "
            "classes x up to 3 x 3 representatives vs 128-bit arithmetic; (3) w = 64 end to end: cbor_new_definite_array/map, decoder heads, push at claimed capacity and serialized_size for n in "
            "{2^k, 2^k +- 1 : 8 <= k <= 64} with a size-recording allocator capped at 1 MiB. distinct_nontrivial = distinct operand pairs",
    .bounds = {"w=8 exhaustive; w=16 structured pairs; w=64 class grid + end-to-end set", "w=8 and w=16 exhaustive (2^16 + 2^32 pairs); w=64 class grid + end-to-end set"},
    .assumptions = {"the guard functions are written parametrically in sizeof(size_t)*8, so the narrow builds execute the same statements as the 64-bit build; this, plus the w=64 class grid, carries the claim "
                    "for the 2^128 pairs of 64-bit operands - it is NOT an exhaustive check of them (the property's SMT clause is replaced, not reproduced)",
                    "a conservative refusal (product fits, guard says no) is correct: the property requires 'obtains >= n*s or fails'",
                    "narrow programs are built with ASan/UBSan: an under-allocation that is then written to is also a heap-buffer-overflow report"},
    .counters = {[VC_EVAL] = "cases_judged", [VC_DISTINCT] = "distinct_operand_pairs", [VC_TRANS] = "unused", [VC_TRACES] = "executed_on_implementation", [K_N8_PAIRS] = "pairs_at_8_bit_size_t",
                 [K_N16_PAIRS] = "pairs_at_16_bit_size_t", [K_CONSERVATIVE] = "conservative_refusals_observed", [K_GROWTH] = "growth_steps_at_narrow_widths", [K_SERSIZE] = "serialized_size_cases_at_narrow_widths",
                 [K_GRID] = "grid_cells_at_64_bit", [K_E2E] = "end_to_end_calls", [K_E2E_REFUSED] = "end_to_end_calls_that_failed_or_need_no_memory", [K_E2E_GRANTED] = "end_to_end_calls_granted", [K_NARROW_SERIALIZE] = "serialize_calls_at_narrow_widths", [K_NARROW_BUILD] = "copying_string_constructors_at_narrow_widths", [K_SHARED_RUNS] = "arrays_holding_one_huge_item_in_2_to_4_slots_sized", [K_BUILD_HUGE] = "copying_string_constructors_with_lengths_up_to_SIZE_MAX", [K_SERIALIZE_SMALL] = "serialize_calls_on_strings_of_huge_declared_length_into_small_buffers",
                 [K_NARROW_RUNS] = "narrow_program_runs"},
    .init = init, .units = units, .unit = unit, .replay = replay};
