/* Boundary corpus: well-formed items whose lengths / counts sit on every head-width boundary and on every growth step of the
 * library's containers - the part of the input space that short byte strings and short head sequences cannot reach. */
#include "vf_enum.h"

#define MAXITEMS 200
static struct { uint8_t* b; size_t n; char name[64]; } IT[MAXITEMS];
static size_t nit;
static uint8_t* cur;
static size_t cn, ccap;
static void put(uint8_t v) {
  if (cn == ccap) { ccap = ccap ? ccap * 2 : 256; cur = realloc(cur, ccap); }
  cur[cn++] = v;
}
static void head(uint8_t mt, uint64_t v) {
  uint8_t t[9];
  size_t l = ref_put_head(t, 9, 0, mt, v, 0);
  for (size_t i = 0; i < l; i++) put(t[i]);
}
static void finish(const char* fmt, uint64_t a, uint64_t b) {
  if (nit >= MAXITEMS) { cn = 0; return; }
  IT[nit].b = malloc(cn ? cn : 1);
  memcpy(IT[nit].b, cur, cn);
  IT[nit].n = cn;
  snprintf(IT[nit].name, sizeof IT[nit].name, fmt, (unsigned long long)a, (unsigned long long)b);
  nit++;
  cn = 0;
}
static void leaf(unsigned i) { /* a small varying leaf */
  switch (i % 5) {
    case 0: put((uint8_t)(i % 24)); break;
    case 1: put(0x38); put((uint8_t)i); break;
    case 2: put(0x61); put((uint8_t)('a' + i % 26)); break;
    case 3: put(0xf5); break;
    default: put(0x41); put((uint8_t)i);
  }
}
void vf_corpus_init(void) {
  if (nit) return;
  static const uint64_t CNT[] = {23, 24, 25, 255, 256, 257, 1000};
  for (unsigned c = 0; c < 7; c++) {
    head(4, CNT[c]);
    for (uint64_t i = 0; i < CNT[c]; i++) leaf((unsigned)i);
    finish("definite array of %llu", CNT[c], 0);
    head(5, CNT[c]);
    for (uint64_t i = 0; i < CNT[c]; i++) { leaf((unsigned)i); leaf((unsigned)i + 2); }
    finish("definite map of %llu pairs", CNT[c], 0);
  }
  static const uint64_t GR[] = {1, 2, 3, 4, 5, 8, 9, 16, 17, 32, 33, 64, 65, 300};
  for (unsigned c = 0; c < 14; c++) {
    put(0x9f);
    for (uint64_t i = 0; i < GR[c]; i++) leaf((unsigned)i);
    put(0xff);
    finish("indefinite array of %llu", GR[c], 0);
    put(0xbf);
    for (uint64_t i = 0; i < GR[c]; i++) { leaf((unsigned)i); leaf((unsigned)i + 1); }
    put(0xff);
    finish("indefinite map of %llu pairs", GR[c], 0);
    put(0x5f);
    for (uint64_t i = 0; i < GR[c]; i++) { head(2, i % 3); for (uint64_t k = 0; k < i % 3; k++) put((uint8_t)k); }
    put(0xff);
    finish("chunked byte string of %llu chunks", GR[c], 0);
    put(0x7f);
    for (uint64_t i = 0; i < GR[c]; i++) { head(3, i % 4 == 3 ? 2 : i % 4); if (i % 4 == 3) { put(0xc3); put(0xa9); } else for (uint64_t k = 0; k < i % 4; k++) put('t'); }
    put(0xff);
    finish("chunked text string of %llu chunks", GR[c], 0);
  }
  /* indefinite containers that grow past 2^16 entries (one more doubling step than any 16-bit count reaches) */
  {
    const uint64_t big = 65540;
    put(0x9f);
    for (uint64_t i = 0; i < big; i++) put((uint8_t)(i % 24));
    put(0xff);
    finish("indefinite array of %llu", big, 0);
    put(0xbf);
    for (uint64_t i = 0; i < big; i++) { put((uint8_t)(i % 24)); put((uint8_t)(0x20 + i % 23)); }
    put(0xff);
    finish("indefinite map of %llu pairs", big, 0);
    put(0x5f);
    for (uint64_t i = 0; i < big; i++) put(0x40);
    put(0xff);
    finish("chunked byte string of %llu empty chunks", big, 0);
    put(0x7f);
    for (uint64_t i = 0; i < big; i++) put(0x60);
    put(0xff);
    finish("chunked text string of %llu empty chunks", big, 0);
  }
  static const uint64_t LEN[] = {23, 24, 255, 256, 65535, 65536};
  for (unsigned c = 0; c < 6; c++)
    for (int text = 0; text < 2; text++) {
      head(text ? 3 : 2, LEN[c]);
      for (uint64_t i = 0; i < LEN[c]; i++) put((uint8_t)('a' + i % 26));
      finish(text ? "text string of %llu bytes" : "byte string of %llu bytes", LEN[c], 0);
    }
  /* nested shapes */
  head(4, 24);
  for (unsigned i = 0; i < 24; i++) { head(4, 24); for (unsigned j = 0; j < 24; j++) put((uint8_t)((i + j) % 24)); }
  finish("24 x 24 array of arrays", 0, 0);
  head(5, 3);
  for (unsigned i = 0; i < 3; i++) { put(0x61); put((uint8_t)('x' + i)); put(0x9f); for (unsigned j = 0; j < 20 + i; j++) leaf(j); put(0xff); }
  finish("map of 3 indefinite arrays", 0, 0);
  for (unsigned depth = 30; depth <= 120; depth += 45) {
    for (unsigned i = 0; i < depth; i++) { if (i % 3 == 0) { put(0xd8); put((uint8_t)(24 + i)); } else if (i % 3 == 1) put(0x81); else { put(0xa1); put(0x00); } }
    put(0xf6);
    finish("mixed tag/array/map nesting, depth %llu", depth, 0);
  }
  /* nesting at and one beyond the default limit (for builds with another limit these are just deep / deeper inputs) */
  for (unsigned extra = 0; extra < 2; extra++)
    for (unsigned kind = 0; kind < 3; kind++) {
      unsigned depth = 2048 + extra;
      for (unsigned i = 0; i < depth; i++) put(kind == 0 ? 0x81 : kind == 1 ? 0xc2 : 0x9f);
      put(0x00);
      if (kind == 2) for (unsigned i = 0; i < depth; i++) put(0xff);
      finish(kind == 0 ? "%llu nested one-element arrays" : kind == 1 ? "%llu nested tags" : "%llu nested indefinite arrays", depth, 0);
    }
  /* exactly at the default limit with an EMPTY container innermost: the decoder completes an empty definite container at its own head, so
   * 2048 open containers + [] / {} is acceptable and is a tree of 2049 containers for everything that walks it afterwards */
  for (unsigned kind = 0; kind < 4; kind++)
    for (unsigned inner = 0; inner < 2; inner++) {
      unsigned depth = 2048;
      for (unsigned i = 0; i < depth; i++) {
        if (kind == 0) put(0x81);
        else if (kind == 1) put(0xc2);
        else if (kind == 2) { put(0xa1); put(0x00); }
        else put(0x9f);
      }
      put(inner ? 0xa0 : 0x80);
      if (kind == 3) for (unsigned i = 0; i < depth; i++) put(0xff);
      static const char* NM[4][2] = {{"%llu nested arrays around an empty array", "%llu nested arrays around an empty map"}, {"%llu nested tags around an empty array", "%llu nested tags around an empty map"},
                                     {"%llu nested maps around an empty array", "%llu nested maps around an empty map"}, {"%llu nested indefinite arrays around []", "%llu nested indefinite arrays around {}"}};
      finish(NM[kind][inner], depth, 0);
    }
  /* declared counts whose storage size is exactly 2^64 bytes (8 * 2^61, 16 * 2^60) and their neighbours: not allocatable, to be refused at the head */
  {
    static const uint64_t CNT4[] = {(1ull << 61) - 1, 1ull << 61, (1ull << 61) + 1, 1ull << 62, 1ull << 63};
    static const uint64_t CNT5[] = {(1ull << 60) - 1, 1ull << 60, (1ull << 60) + 1, 1ull << 61, 1ull << 63};
    for (unsigned i = 0; i < 5; i++) {
      head(4, CNT4[i]);
      put(0x00);
      put(0x01);
      finish("array head declaring %llu entries, two present", CNT4[i], 0);
      put(0xc1);
      head(5, CNT5[i]);
      put(0x00);
      put(0x01);
      finish("tagged map head declaring %llu pairs, one present", CNT5[i], 0);
    }
  }
  head(6, 0xffffffffffffffffull);
  head(6, 0x100000000ull);
  head(6, 65536);
  head(6, 256);
  head(6, 24);
  put(0xfb); for (int i = 0; i < 8; i++) put((uint8_t)(0x40 + i));
  finish("tags at every head width around a double", 0, 0);
  head(4, 300);
  for (unsigned i = 0; i < 300; i++) { put(0x19); put((uint8_t)(i >> 8)); put((uint8_t)i); }
  finish("definite array of 300 16-bit integers", 0, 0);
}
size_t vf_corpus_count(void) { return nit; }
const uint8_t* vf_corpus_item(size_t i, size_t* n, const char** name) {
  *n = IT[i].n;
  if (name) *name = IT[i].name;
  return IT[i].b;
}
