/* Constructed-tree enumerator: every tree a small grammar of construction-API programs can build
 * (all builders, all widths at boundary values, empty / multi-chunk strings, partially filled
 * definite containers, shared sub-items).  A tree is identified by its choice vector, which is
 * enumerated odometer-style (no randomness) and is also the replayable case description. */
#ifndef VF_TREES_H
#define VF_TREES_H
#include "cbor.h"
#include "vf.h"
#define VT_MAXCHOICES 48
typedef struct {
  uint8_t c[VT_MAXCHOICES];     /* choices taken */
  uint8_t arity[VT_MAXCHOICES]; /* arity seen at each choice point */
  unsigned n;                   /* number of choice points of the last build */
  unsigned fixed;               /* leading choices that the odometer must not change (unit prefix) */
} vt_choices;
/* builds the tree selected by ch->c[0..] (missing choices default to 0); fills arity/n.
 * returns a new reference (refcount 1) or NULL if an allocation was refused */
cbor_item_t* vt_build(vt_choices* ch, int depth);
/* advance to the next choice vector; false when exhausted (respecting ch->fixed) */
bool vt_next(vt_choices* ch);
unsigned vt_top_arity(int depth);
void vt_describe(const vt_choices* ch, vf_sb* out);
#endif
