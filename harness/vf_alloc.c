#include "vf_alloc.h"

#include <stdio.h>
#include <stdlib.h>
#include <string.h>

#include "cbor.h"

#if defined(__has_feature)
#if __has_feature(address_sanitizer)
#define VA_ASAN 1
#endif
#endif
#if defined(__SANITIZE_ADDRESS__)
#define VA_ASAN 1
#endif
#if defined(__has_feature)
#if __has_feature(memory_sanitizer)
#include <sanitizer/msan_interface.h>
#define VA_MSAN_POISON(p, n) __msan_poison((p), (n))
#endif
#endif
#ifndef VA_MSAN_POISON
#define VA_MSAN_POISON(p, n) ((void)0)
#endif
#ifdef VA_ASAN
#include <sanitizer/asan_interface.h>
#define VA_POISON(p, n) ASAN_POISON_MEMORY_REGION((p), (n))
#define VA_UNPOISON(p, n) ASAN_UNPOISON_MEMORY_REGION((p), (n))
#else
#define VA_POISON(p, n) ((void)0)
#define VA_UNPOISON(p, n) ((void)0)
#endif

struct va_stats va;
uint64_t va_cap = 1ull << 30;
uint64_t va_trace[256];
unsigned va_ntrace;
static int sched_mode;
static uint64_t sched_k, sched_k2;
static va_hdr *head, *tail;
static uint64_t serial;

void va_schedule(int mode, uint64_t k, uint64_t k2) {
  sched_mode = mode;
  sched_k = k;
  sched_k2 = k2;
}
void va_reset(void) {
  memset(&va, 0, sizeof va);
  /* live blocks survive a reset: recount them */
  for (va_hdr* h = head; h; h = h->next) {
    va.live++;
    va.live_bytes += h->size;
  }
  sched_mode = VA_NOFAULT;
  va_ntrace = 0;
}
static void err(const char* what, const void* p) {
  va.errors++;
  snprintf(va.last_error, sizeof va.last_error, "%s %p", what, p);
}
static int refuse_now(size_t n) {
  uint64_t idx = va.requests++;
  if (va_ntrace < 256) va_trace[va_ntrace++] = n;
  if (n > va.max_request) va.max_request = n;
  if (n == 0) va.zero_size++;
  int r = 0;
  switch (sched_mode) {
    case VA_FAIL_ONE: r = idx == sched_k; break;
    case VA_FAIL_FROM: r = idx >= sched_k; break;
    case VA_FAIL_PAIR: r = idx == sched_k || idx == sched_k2; break;
    default: break;
  }
  if (!r && n > va_cap) {
    va.cap_refused++;
    r = 1;
  }
  if (r) va.refused++;
  return r;
}
/* in-place mode (VF_ALLOC_INPLACE=1 or 2): every block is given spare capacity, and a realloc that fits into it returns the SAME pointer - the way
 * a size-class allocator or glibc at the top of the heap behaves. 1: capacity 2n+64 (a doubling fits once, the next one moves); 2: capacity
 * 16n+4096 (almost every growth stays in place). Default (0): realloc always moves, which makes stale pointers into the old block fatal. */
int va_inplace = -1;
static size_t capacity_for(size_t n) {
  if (va_inplace < 0) {
    const char* e = getenv("VF_ALLOC_INPLACE");
    va_inplace = e ? atoi(e) : 0;
  }
  return va_inplace == 1 ? 2 * n + 64 : va_inplace == 2 ? 16 * n + 4096 : n;
}
static void* raw_alloc(size_t n) {
  size_t capn = capacity_for(n);
  va_hdr* h = malloc(sizeof(va_hdr) + capn);
  if (!h) {
    fprintf(stderr, "vf_alloc: libc malloc(%zu) failed\n", n);
    abort();
  }
  h->magic = VA_LIVE_MAGIC;
  h->size = n;
  h->serial = serial++;
  h->pad = capn; /* usable capacity of the block */
  h->next = NULL;
  h->prev = tail;
  if (tail) tail->next = h; else head = h;
  tail = h;
  if (n) memset(h + 1, 0xCD, n);
  if (n) VA_MSAN_POISON(h + 1, n); /* deterministic content, but still "uninitialised" for MemorySanitizer */
  if (capn > n) VA_POISON((unsigned char*)(h + 1) + n, capn - n); /* the spare capacity is not the client's: a write into it is a heap overflow */
  va.live++;
  va.live_bytes += n;
  return h + 1;
}
static void raw_free(va_hdr* h) {
  if (h->prev) h->prev->next = h->next; else head = h->next;
  if (h->next) h->next->prev = h->prev; else tail = h->prev;
  h->magic = VA_DEAD_MAGIC;
  if (h->pad > h->size) VA_UNPOISON((unsigned char*)(h + 1) + h->size, h->pad - h->size);
  if (h->size) memset(h + 1, 0xDD, h->size);
  va.live--;
  va.live_bytes -= h->size;
  free(h);
}
void* va_malloc(size_t n) {
  va.mallocs++;
  if (refuse_now(n)) return NULL;
  return raw_alloc(n);
}
void va_free(void* p) {
  va.frees++;
  if (!p) {
    va.free_null++;
    return;
  }
  va_hdr* h = (va_hdr*)p - 1;
  if (h->magic != VA_LIVE_MAGIC) {
    err(h->magic == VA_DEAD_MAGIC ? "free of an already released block" : "free of a pointer not obtained from the installed allocator", p);
    return;
  }
  raw_free(h);
}
void* va_realloc(void* p, size_t n) {
  va.reallocs++;
  va_hdr* h = NULL;
  if (p) {
    h = (va_hdr*)p - 1;
    if (h->magic != VA_LIVE_MAGIC) {
      err(h->magic == VA_DEAD_MAGIC ? "realloc of an already released block" : "realloc of a pointer not obtained from the installed allocator", p);
      va.requests++;
      return NULL;
    }
  }
  if (refuse_now(n)) return NULL;
  if (h && va_inplace > 0 && n <= h->pad) { /* grows (or shrinks) in place: same pointer */
    VA_UNPOISON((unsigned char*)p, h->pad);
    if (n > h->size) memset((unsigned char*)p + h->size, 0xCD, n - h->size);
    if (h->pad > n) VA_POISON((unsigned char*)p + n, h->pad - n);
    va.live_bytes += n - h->size;
    h->size = n;
    va.inplace_reallocs++;
    return p;
  }
  void* q = raw_alloc(n); /* always moves: stale pointers into the old block become use-after-free */
  if (h) {
    memcpy(q, p, h->size < n ? h->size : n);
    raw_free(h);
  }
  return q;
}
void va_install(void) { cbor_set_allocs(va_malloc, va_realloc, va_free); }
void va_release_all(void) {
  while (head) raw_free(head);
}
int va_is_live(const void* p) {
  for (va_hdr* h = head; h; h = h->next)
    if ((const void*)(h + 1) == p) return 1;
  return 0;
}
size_t va_block_size(const void* p) { return ((const va_hdr*)p - 1)->size; }
va_hdr* va_first(void) { return head; }
uint64_t va_serial(void) { return serial; }
uint64_t va_image_hash(void) { return va_image_hash_before(UINT64_MAX); }
uint64_t va_image_hash_before(uint64_t limit) {
  uint64_t x = 0x1234;
  for (va_hdr* h = head; h; h = h->next) {
    if (h->serial >= limit) continue;
    x = x * 0x100000001b3ull ^ (uint64_t)(uintptr_t)h;
    x = x * 0x100000001b3ull ^ h->size;
    const unsigned char* b = (const unsigned char*)(h + 1);
    for (uint64_t i = 0; i < h->size; i++) x = (x ^ b[i]) * 0x100000001b3ull;
  }
  return x;
}
