#include "vf_walk.h"

#include <math.h>
size_t vf_walk_nodes;
static rnode* walk(const cbor_item_t* it) {
  rnode* r = NULL;
  vf_walk_nodes++;
  switch (cbor_typeof(it)) {
    case CBOR_TYPE_UINT:
    case CBOR_TYPE_NEGINT:
      r = ref_new(cbor_isa_uint(it) ? RK_UINT : RK_NEGINT);
      switch (cbor_int_get_width(it)) {
        case CBOR_INT_8: r->width = 8; r->val = cbor_get_uint8(it); break;
        case CBOR_INT_16: r->width = 16; r->val = cbor_get_uint16(it); break;
        case CBOR_INT_32: r->width = 32; r->val = cbor_get_uint32(it); break;
        case CBOR_INT_64: r->width = 64; r->val = cbor_get_uint64(it); break;
      }
      if (r->val != cbor_get_int(it)) r->width = 0xEE; /* getters disagree: poison the width */
      break;
    case CBOR_TYPE_BYTESTRING:
      if (cbor_bytestring_is_definite(it)) {
        r = ref_new(RK_BYTES);
        r->bytes = cbor_bytestring_handle(it);
        r->len = cbor_bytestring_length(it);
        r->buf = r->bytes;
      } else {
        r = ref_new(RK_BYTES_INDEF);
        size_t n = cbor_bytestring_chunk_count(it);
        cbor_item_t** ch = cbor_bytestring_chunks_handle(it);
        r->buf = it->data;
        r->buf2 = ch;
        for (size_t i = 0; i < n; i++) ref_add_kid(r, walk(ch[i]));
      }
      break;
    case CBOR_TYPE_STRING:
      if (cbor_string_is_definite(it)) {
        r = ref_new(RK_TEXT);
        r->bytes = cbor_string_handle(it);
        r->len = cbor_string_length(it);
        r->cp = (int64_t)cbor_string_codepoint_count(it);
        r->buf = r->bytes;
      } else {
        r = ref_new(RK_TEXT_INDEF);
        size_t n = cbor_string_chunk_count(it);
        cbor_item_t** ch = cbor_string_chunks_handle(it);
        r->buf = it->data;
        r->buf2 = ch;
        for (size_t i = 0; i < n; i++) ref_add_kid(r, walk(ch[i]));
      }
      break;
    case CBOR_TYPE_ARRAY: {
      r = ref_new(cbor_array_is_definite(it) ? RK_ARRAY : RK_ARRAY_INDEF);
      size_t n = cbor_array_size(it);
      r->allocated = cbor_array_allocated(it);
      cbor_item_t** h = cbor_array_handle(it);
      r->buf = h;
      for (size_t i = 0; i < n; i++) ref_add_kid(r, walk(h[i]));
      break;
    }
    case CBOR_TYPE_MAP: {
      r = ref_new(cbor_map_is_definite(it) ? RK_MAP : RK_MAP_INDEF);
      size_t n = cbor_map_size(it);
      r->allocated = cbor_map_allocated(it);
      struct cbor_pair* h = cbor_map_handle(it);
      r->buf = h;
      for (size_t i = 0; i < n; i++) {
        ref_add_kid(r, walk(h[i].key));
        ref_add_kid(r, walk(h[i].value));
      }
      break;
    }
    case CBOR_TYPE_TAG:
      r = ref_new(RK_TAG);
      r->val = cbor_tag_value(it);
      /* cbor_tag_item() hands out a new reference; the walker must not touch counts, so the
       * (public) struct field is read directly */
      if (it->metadata.tag_metadata.tagged_item) ref_add_kid(r, walk(it->metadata.tag_metadata.tagged_item));
      break;
    case CBOR_TYPE_FLOAT_CTRL:
      if (cbor_float_ctrl_is_ctrl(it)) {
        r = ref_new(RK_SIMPLE);
        r->val = cbor_ctrl_value(it);
      } else {
        r = ref_new(RK_FLOAT);
        switch (cbor_float_get_width(it)) {
          case CBOR_FLOAT_16:
          case CBOR_FLOAT_32: {
            r->width = cbor_float_get_width(it) == CBOR_FLOAT_16 ? 16 : 32;
            float f = r->width == 16 ? cbor_float_get_float2(it) : cbor_float_get_float4(it);
            uint32_t u;
            memcpy(&u, &f, 4);
            r->isnan = ((u >> 23) & 255) == 255 && (u & 0x7fffff);
            r->val = r->isnan ? 0 : u;
            break;
          }
          default: {
            r->width = 64;
            double d = cbor_float_get_float8(it);
            uint64_t u;
            memcpy(&u, &d, 8);
            r->isnan = ((u >> 52) & 2047) == 2047 && (u & 0xfffffffffffffull);
            r->val = r->isnan ? 0 : u;
          }
        }
      }
      break;
  }
  r->refcount = cbor_refcount(it);
  r->addr = it;
  return r;
}
rnode* vf_walk(const cbor_item_t* it) {
  vf_walk_nodes = 0;
  return walk(it);
}
size_t vf_collect_blocks(const rnode* t, const void** out, size_t cap) {
  size_t n = 0;
  if (n < cap) out[n++] = t->addr;
  if (t->buf && n < cap) out[n++] = t->buf;
  if (t->buf2 && n < cap) out[n++] = t->buf2;
  for (size_t i = 0; i < t->nkids; i++) n += vf_collect_blocks(t->kids[i], out + n, cap - n);
  return n;
}
